
(** val negb : bool -> bool **)

let negb = function
| true -> false
| false -> true

type nat =
| O
| S of nat

(** val fst : ('a1 * 'a2) -> 'a1 **)

let fst = function
| (x, _) -> x

(** val snd : ('a1 * 'a2) -> 'a2 **)

let snd = function
| (_, y) -> y

(** val length : 'a1 list -> nat **)

let rec length = function
| [] -> O
| _ :: l' -> S (length l')

(** val app : 'a1 list -> 'a1 list -> 'a1 list **)

let rec app l m =
  match l with
  | [] -> m
  | a :: l1 -> a :: (app l1 m)

type comparison =
| Eq
| Lt
| Gt

(** val compOpp : comparison -> comparison **)

let compOpp = function
| Eq -> Eq
| Lt -> Gt
| Gt -> Lt

module Coq__1 = struct
 (** val add : nat -> nat -> nat **)
 let rec add n0 m =
   match n0 with
   | O -> m
   | S p0 -> S (add p0 m)
end
include Coq__1

(** val sub : nat -> nat -> nat **)

let rec sub n0 m =
  match n0 with
  | O -> n0
  | S k -> (match m with
            | O -> n0
            | S l -> sub k l)

module Nat =
 struct
  (** val eqb : nat -> nat -> bool **)

  let rec eqb n0 m =
    match n0 with
    | O -> (match m with
            | O -> true
            | S _ -> false)
    | S n' -> (match m with
               | O -> false
               | S m' -> eqb n' m')

  (** val leb : nat -> nat -> bool **)

  let rec leb n0 m =
    match n0 with
    | O -> true
    | S n' -> (match m with
               | O -> false
               | S m' -> leb n' m')

  (** val ltb : nat -> nat -> bool **)

  let ltb n0 m =
    leb (S n0) m

  (** val div2 : nat -> nat **)

  let rec div2 = function
  | O -> O
  | S n1 -> (match n1 with
             | O -> O
             | S n' -> S (div2 n'))
 end

(** val nth : nat -> 'a1 list -> 'a1 -> 'a1 **)

let rec nth n0 l default =
  match n0 with
  | O -> (match l with
          | [] -> default
          | x :: _ -> x)
  | S m -> (match l with
            | [] -> default
            | _ :: t -> nth m t default)

(** val nth_error : 'a1 list -> nat -> 'a1 option **)

let rec nth_error l = function
| O -> (match l with
        | [] -> None
        | x :: _ -> Some x)
| S n1 -> (match l with
           | [] -> None
           | _ :: l0 -> nth_error l0 n1)

(** val rev : 'a1 list -> 'a1 list **)

let rec rev = function
| [] -> []
| x :: l' -> app (rev l') (x :: [])

(** val map : ('a1 -> 'a2) -> 'a1 list -> 'a2 list **)

let rec map f = function
| [] -> []
| a :: t -> (f a) :: (map f t)

(** val flat_map : ('a1 -> 'a2 list) -> 'a1 list -> 'a2 list **)

let rec flat_map f = function
| [] -> []
| x :: t -> app (f x) (flat_map f t)

(** val fold_left : ('a1 -> 'a2 -> 'a1) -> 'a2 list -> 'a1 -> 'a1 **)

let rec fold_left f l a0 =
  match l with
  | [] -> a0
  | b :: t -> fold_left f t (f a0 b)

(** val fold_right : ('a2 -> 'a1 -> 'a1) -> 'a1 -> 'a2 list -> 'a1 **)

let rec fold_right f a0 = function
| [] -> a0
| b :: t -> f b (fold_right f a0 t)

(** val existsb : ('a1 -> bool) -> 'a1 list -> bool **)

let rec existsb f = function
| [] -> false
| a :: l0 -> (||) (f a) (existsb f l0)

(** val forallb : ('a1 -> bool) -> 'a1 list -> bool **)

let rec forallb f = function
| [] -> true
| a :: l0 -> (&&) (f a) (forallb f l0)

(** val filter : ('a1 -> bool) -> 'a1 list -> 'a1 list **)

let rec filter f = function
| [] -> []
| x :: l0 -> if f x then x :: (filter f l0) else filter f l0

(** val find : ('a1 -> bool) -> 'a1 list -> 'a1 option **)

let rec find f = function
| [] -> None
| x :: tl -> if f x then Some x else find f tl

(** val firstn : nat -> 'a1 list -> 'a1 list **)

let rec firstn n0 l =
  match n0 with
  | O -> []
  | S n1 -> (match l with
             | [] -> []
             | a :: l0 -> a :: (firstn n1 l0))

(** val skipn : nat -> 'a1 list -> 'a1 list **)

let rec skipn n0 l =
  match n0 with
  | O -> l
  | S n1 -> (match l with
             | [] -> []
             | _ :: l0 -> skipn n1 l0)

(** val repeat : 'a1 -> nat -> 'a1 list **)

let rec repeat x = function
| O -> []
| S k -> x :: (repeat x k)

type positive =
| XI of positive
| XO of positive
| XH

type n =
| N0
| Npos of positive

type z =
| Z0
| Zpos of positive
| Zneg of positive

module Pos =
 struct
  type mask =
  | IsNul
  | IsPos of positive
  | IsNeg
 end

module Coq_Pos =
 struct
  (** val succ : positive -> positive **)

  let rec succ = function
  | XI p0 -> XO (succ p0)
  | XO p0 -> XI p0
  | XH -> XO XH

  (** val add : positive -> positive -> positive **)

  let rec add x y =
    match x with
    | XI p0 ->
      (match y with
       | XI q -> XO (add_carry p0 q)
       | XO q -> XI (add p0 q)
       | XH -> XO (succ p0))
    | XO p0 ->
      (match y with
       | XI q -> XI (add p0 q)
       | XO q -> XO (add p0 q)
       | XH -> XI p0)
    | XH -> (match y with
             | XI q -> XO (succ q)
             | XO q -> XI q
             | XH -> XO XH)

  (** val add_carry : positive -> positive -> positive **)

  and add_carry x y =
    match x with
    | XI p0 ->
      (match y with
       | XI q -> XI (add_carry p0 q)
       | XO q -> XO (add_carry p0 q)
       | XH -> XI (succ p0))
    | XO p0 ->
      (match y with
       | XI q -> XO (add_carry p0 q)
       | XO q -> XI (add p0 q)
       | XH -> XO (succ p0))
    | XH ->
      (match y with
       | XI q -> XI (succ q)
       | XO q -> XO (succ q)
       | XH -> XI XH)

  (** val pred_double : positive -> positive **)

  let rec pred_double = function
  | XI p0 -> XI (XO p0)
  | XO p0 -> XI (pred_double p0)
  | XH -> XH

  type mask = Pos.mask =
  | IsNul
  | IsPos of positive
  | IsNeg

  (** val succ_double_mask : mask -> mask **)

  let succ_double_mask = function
  | IsNul -> IsPos XH
  | IsPos p0 -> IsPos (XI p0)
  | IsNeg -> IsNeg

  (** val double_mask : mask -> mask **)

  let double_mask = function
  | IsPos p0 -> IsPos (XO p0)
  | x0 -> x0

  (** val double_pred_mask : positive -> mask **)

  let double_pred_mask = function
  | XI p0 -> IsPos (XO (XO p0))
  | XO p0 -> IsPos (XO (pred_double p0))
  | XH -> IsNul

  (** val sub_mask : positive -> positive -> mask **)

  let rec sub_mask x y =
    match x with
    | XI p0 ->
      (match y with
       | XI q -> double_mask (sub_mask p0 q)
       | XO q -> succ_double_mask (sub_mask p0 q)
       | XH -> IsPos (XO p0))
    | XO p0 ->
      (match y with
       | XI q -> succ_double_mask (sub_mask_carry p0 q)
       | XO q -> double_mask (sub_mask p0 q)
       | XH -> IsPos (pred_double p0))
    | XH -> (match y with
             | XH -> IsNul
             | _ -> IsNeg)

  (** val sub_mask_carry : positive -> positive -> mask **)

  and sub_mask_carry x y =
    match x with
    | XI p0 ->
      (match y with
       | XI q -> succ_double_mask (sub_mask_carry p0 q)
       | XO q -> double_mask (sub_mask p0 q)
       | XH -> IsPos (pred_double p0))
    | XO p0 ->
      (match y with
       | XI q -> double_mask (sub_mask_carry p0 q)
       | XO q -> succ_double_mask (sub_mask_carry p0 q)
       | XH -> double_pred_mask p0)
    | XH -> IsNeg

  (** val mul : positive -> positive -> positive **)

  let rec mul x y =
    match x with
    | XI p0 -> add y (XO (mul p0 y))
    | XO p0 -> XO (mul p0 y)
    | XH -> y

  (** val iter : ('a1 -> 'a1) -> 'a1 -> positive -> 'a1 **)

  let rec iter f x = function
  | XI n' -> f (iter f (iter f x n') n')
  | XO n' -> iter f (iter f x n') n'
  | XH -> f x

  (** val size : positive -> positive **)

  let rec size = function
  | XI p1 -> succ (size p1)
  | XO p1 -> succ (size p1)
  | XH -> XH

  (** val compare_cont : comparison -> positive -> positive -> comparison **)

  let rec compare_cont r x y =
    match x with
    | XI p0 ->
      (match y with
       | XI q -> compare_cont r p0 q
       | XO q -> compare_cont Gt p0 q
       | XH -> Gt)
    | XO p0 ->
      (match y with
       | XI q -> compare_cont Lt p0 q
       | XO q -> compare_cont r p0 q
       | XH -> Gt)
    | XH -> (match y with
             | XH -> r
             | _ -> Lt)

  (** val compare : positive -> positive -> comparison **)

  let compare =
    compare_cont Eq

  (** val eqb : positive -> positive -> bool **)

  let rec eqb p0 q =
    match p0 with
    | XI p1 -> (match q with
                | XI q0 -> eqb p1 q0
                | _ -> false)
    | XO p1 -> (match q with
                | XO q0 -> eqb p1 q0
                | _ -> false)
    | XH -> (match q with
             | XH -> true
             | _ -> false)

  (** val iter_op : ('a1 -> 'a1 -> 'a1) -> positive -> 'a1 -> 'a1 **)

  let rec iter_op op p0 a =
    match p0 with
    | XI p1 -> op a (iter_op op p1 (op a a))
    | XO p1 -> iter_op op p1 (op a a)
    | XH -> a

  (** val to_nat : positive -> nat **)

  let to_nat x =
    iter_op Coq__1.add x (S O)

  (** val of_succ_nat : nat -> positive **)

  let rec of_succ_nat = function
  | O -> XH
  | S x -> succ (of_succ_nat x)
 end

module N =
 struct
  (** val succ_double : n -> n **)

  let succ_double = function
  | N0 -> Npos XH
  | Npos p0 -> Npos (XI p0)

  (** val double : n -> n **)

  let double = function
  | N0 -> N0
  | Npos p0 -> Npos (XO p0)

  (** val add : n -> n -> n **)

  let add n0 m =
    match n0 with
    | N0 -> m
    | Npos p0 -> (match m with
                  | N0 -> n0
                  | Npos q -> Npos (Coq_Pos.add p0 q))

  (** val sub : n -> n -> n **)

  let sub n0 m =
    match n0 with
    | N0 -> N0
    | Npos n' ->
      (match m with
       | N0 -> n0
       | Npos m' ->
         (match Coq_Pos.sub_mask n' m' with
          | Coq_Pos.IsPos p0 -> Npos p0
          | _ -> N0))

  (** val mul : n -> n -> n **)

  let mul n0 m =
    match n0 with
    | N0 -> N0
    | Npos p0 -> (match m with
                  | N0 -> N0
                  | Npos q -> Npos (Coq_Pos.mul p0 q))

  (** val compare : n -> n -> comparison **)

  let compare n0 m =
    match n0 with
    | N0 -> (match m with
             | N0 -> Eq
             | Npos _ -> Lt)
    | Npos n' -> (match m with
                  | N0 -> Gt
                  | Npos m' -> Coq_Pos.compare n' m')

  (** val eqb : n -> n -> bool **)

  let eqb n0 m =
    match n0 with
    | N0 -> (match m with
             | N0 -> true
             | Npos _ -> false)
    | Npos p0 -> (match m with
                  | N0 -> false
                  | Npos q -> Coq_Pos.eqb p0 q)

  (** val leb : n -> n -> bool **)

  let leb x y =
    match compare x y with
    | Gt -> false
    | _ -> true

  (** val ltb : n -> n -> bool **)

  let ltb x y =
    match compare x y with
    | Lt -> true
    | _ -> false

  (** val pos_div_eucl : positive -> n -> n * n **)

  let rec pos_div_eucl a b =
    match a with
    | XI a' ->
      let (q, r) = pos_div_eucl a' b in
      let r' = succ_double r in
      if leb b r' then ((succ_double q), (sub r' b)) else ((double q), r')
    | XO a' ->
      let (q, r) = pos_div_eucl a' b in
      let r' = double r in
      if leb b r' then ((succ_double q), (sub r' b)) else ((double q), r')
    | XH ->
      (match b with
       | N0 -> (N0, (Npos XH))
       | Npos p0 ->
         (match p0 with
          | XH -> ((Npos XH), N0)
          | _ -> (N0, (Npos XH))))

  (** val div_eucl : n -> n -> n * n **)

  let div_eucl a b =
    match a with
    | N0 -> (N0, N0)
    | Npos na -> (match b with
                  | N0 -> (N0, a)
                  | Npos _ -> pos_div_eucl na b)

  (** val modulo : n -> n -> n **)

  let modulo a b =
    snd (div_eucl a b)

  (** val of_nat : nat -> n **)

  let of_nat = function
  | O -> N0
  | S n' -> Npos (Coq_Pos.of_succ_nat n')
 end

module Z =
 struct
  (** val double : z -> z **)

  let double = function
  | Z0 -> Z0
  | Zpos p0 -> Zpos (XO p0)
  | Zneg p0 -> Zneg (XO p0)

  (** val succ_double : z -> z **)

  let succ_double = function
  | Z0 -> Zpos XH
  | Zpos p0 -> Zpos (XI p0)
  | Zneg p0 -> Zneg (Coq_Pos.pred_double p0)

  (** val pred_double : z -> z **)

  let pred_double = function
  | Z0 -> Zneg XH
  | Zpos p0 -> Zpos (Coq_Pos.pred_double p0)
  | Zneg p0 -> Zneg (XI p0)

  (** val pos_sub : positive -> positive -> z **)

  let rec pos_sub x y =
    match x with
    | XI p0 ->
      (match y with
       | XI q -> double (pos_sub p0 q)
       | XO q -> succ_double (pos_sub p0 q)
       | XH -> Zpos (XO p0))
    | XO p0 ->
      (match y with
       | XI q -> pred_double (pos_sub p0 q)
       | XO q -> double (pos_sub p0 q)
       | XH -> Zpos (Coq_Pos.pred_double p0))
    | XH ->
      (match y with
       | XI q -> Zneg (XO q)
       | XO q -> Zneg (Coq_Pos.pred_double q)
       | XH -> Z0)

  (** val add : z -> z -> z **)

  let add x y =
    match x with
    | Z0 -> y
    | Zpos x' ->
      (match y with
       | Z0 -> x
       | Zpos y' -> Zpos (Coq_Pos.add x' y')
       | Zneg y' -> pos_sub x' y')
    | Zneg x' ->
      (match y with
       | Z0 -> x
       | Zpos y' -> pos_sub y' x'
       | Zneg y' -> Zneg (Coq_Pos.add x' y'))

  (** val opp : z -> z **)

  let opp = function
  | Z0 -> Z0
  | Zpos x0 -> Zneg x0
  | Zneg x0 -> Zpos x0

  (** val sub : z -> z -> z **)

  let sub m n0 =
    add m (opp n0)

  (** val mul : z -> z -> z **)

  let mul x y =
    match x with
    | Z0 -> Z0
    | Zpos x' ->
      (match y with
       | Z0 -> Z0
       | Zpos y' -> Zpos (Coq_Pos.mul x' y')
       | Zneg y' -> Zneg (Coq_Pos.mul x' y'))
    | Zneg x' ->
      (match y with
       | Z0 -> Z0
       | Zpos y' -> Zneg (Coq_Pos.mul x' y')
       | Zneg y' -> Zpos (Coq_Pos.mul x' y'))

  (** val pow_pos : z -> positive -> z **)

  let pow_pos z0 =
    Coq_Pos.iter (mul z0) (Zpos XH)

  (** val pow : z -> z -> z **)

  let pow x = function
  | Z0 -> Zpos XH
  | Zpos p0 -> pow_pos x p0
  | Zneg _ -> Z0

  (** val compare : z -> z -> comparison **)

  let compare x y =
    match x with
    | Z0 -> (match y with
             | Z0 -> Eq
             | Zpos _ -> Lt
             | Zneg _ -> Gt)
    | Zpos x' -> (match y with
                  | Zpos y' -> Coq_Pos.compare x' y'
                  | _ -> Gt)
    | Zneg x' ->
      (match y with
       | Zneg y' -> compOpp (Coq_Pos.compare x' y')
       | _ -> Lt)

  (** val leb : z -> z -> bool **)

  let leb x y =
    match compare x y with
    | Gt -> false
    | _ -> true

  (** val ltb : z -> z -> bool **)

  let ltb x y =
    match compare x y with
    | Lt -> true
    | _ -> false

  (** val geb : z -> z -> bool **)

  let geb x y =
    match compare x y with
    | Lt -> false
    | _ -> true

  (** val gtb : z -> z -> bool **)

  let gtb x y =
    match compare x y with
    | Gt -> true
    | _ -> false

  (** val eqb : z -> z -> bool **)

  let eqb x y =
    match x with
    | Z0 -> (match y with
             | Z0 -> true
             | _ -> false)
    | Zpos p0 -> (match y with
                  | Zpos q -> Coq_Pos.eqb p0 q
                  | _ -> false)
    | Zneg p0 -> (match y with
                  | Zneg q -> Coq_Pos.eqb p0 q
                  | _ -> false)

  (** val max : z -> z -> z **)

  let max n0 m =
    match compare n0 m with
    | Lt -> m
    | _ -> n0

  (** val min : z -> z -> z **)

  let min n0 m =
    match compare n0 m with
    | Gt -> m
    | _ -> n0

  (** val abs : z -> z **)

  let abs = function
  | Zneg p0 -> Zpos p0
  | x -> x

  (** val to_nat : z -> nat **)

  let to_nat = function
  | Zpos p0 -> Coq_Pos.to_nat p0
  | _ -> O

  (** val to_N : z -> n **)

  let to_N = function
  | Zpos p0 -> Npos p0
  | _ -> N0

  (** val of_nat : nat -> z **)

  let of_nat = function
  | O -> Z0
  | S n1 -> Zpos (Coq_Pos.of_succ_nat n1)

  (** val of_N : n -> z **)

  let of_N = function
  | N0 -> Z0
  | Npos p0 -> Zpos p0

  (** val pos_div_eucl : positive -> z -> z * z **)

  let rec pos_div_eucl a b =
    match a with
    | XI a' ->
      let (q, r) = pos_div_eucl a' b in
      let r' = add (mul (Zpos (XO XH)) r) (Zpos XH) in
      if ltb r' b
      then ((mul (Zpos (XO XH)) q), r')
      else ((add (mul (Zpos (XO XH)) q) (Zpos XH)), (sub r' b))
    | XO a' ->
      let (q, r) = pos_div_eucl a' b in
      let r' = mul (Zpos (XO XH)) r in
      if ltb r' b
      then ((mul (Zpos (XO XH)) q), r')
      else ((add (mul (Zpos (XO XH)) q) (Zpos XH)), (sub r' b))
    | XH -> if leb (Zpos (XO XH)) b then (Z0, (Zpos XH)) else ((Zpos XH), Z0)

  (** val div_eucl : z -> z -> z * z **)

  let div_eucl a b =
    match a with
    | Z0 -> (Z0, Z0)
    | Zpos a' ->
      (match b with
       | Z0 -> (Z0, a)
       | Zpos _ -> pos_div_eucl a' b
       | Zneg b' ->
         let (q, r) = pos_div_eucl a' (Zpos b') in
         (match r with
          | Z0 -> ((opp q), Z0)
          | _ -> ((opp (add q (Zpos XH))), (add b r))))
    | Zneg a' ->
      (match b with
       | Z0 -> (Z0, a)
       | Zpos _ ->
         let (q, r) = pos_div_eucl a' b in
         (match r with
          | Z0 -> ((opp q), Z0)
          | _ -> ((opp (add q (Zpos XH))), (sub b r)))
       | Zneg b' -> let (q, r) = pos_div_eucl a' (Zpos b') in (q, (opp r)))

  (** val div : z -> z -> z **)

  let div a b =
    let (q, _) = div_eucl a b in q

  (** val modulo : z -> z -> z **)

  let modulo a b =
    let (_, r) = div_eucl a b in r

  (** val quotrem : z -> z -> z * z **)

  let quotrem a b =
    match a with
    | Z0 -> (Z0, Z0)
    | Zpos a0 ->
      (match b with
       | Z0 -> (Z0, a)
       | Zpos b0 ->
         let (q, r) = N.pos_div_eucl a0 (Npos b0) in ((of_N q), (of_N r))
       | Zneg b0 ->
         let (q, r) = N.pos_div_eucl a0 (Npos b0) in
         ((opp (of_N q)), (of_N r)))
    | Zneg a0 ->
      (match b with
       | Z0 -> (Z0, a)
       | Zpos b0 ->
         let (q, r) = N.pos_div_eucl a0 (Npos b0) in
         ((opp (of_N q)), (opp (of_N r)))
       | Zneg b0 ->
         let (q, r) = N.pos_div_eucl a0 (Npos b0) in
         ((of_N q), (opp (of_N r))))

  (** val quot : z -> z -> z **)

  let quot a b =
    fst (quotrem a b)

  (** val rem : z -> z -> z **)

  let rem a b =
    snd (quotrem a b)

  (** val even : z -> bool **)

  let even = function
  | Z0 -> true
  | Zpos p0 -> (match p0 with
                | XO _ -> true
                | _ -> false)
  | Zneg p0 -> (match p0 with
                | XO _ -> true
                | _ -> false)

  (** val log2 : z -> z **)

  let log2 = function
  | Zpos p0 ->
    (match p0 with
     | XI p1 -> Zpos (Coq_Pos.size p1)
     | XO p1 -> Zpos (Coq_Pos.size p1)
     | XH -> Z0)
  | _ -> Z0
 end

type byte = n

type bytes = byte list

(** val bcompare : bytes -> bytes -> comparison **)

let rec bcompare a b =
  match a with
  | [] -> (match b with
           | [] -> Eq
           | _ :: _ -> Lt)
  | x :: a' ->
    (match b with
     | [] -> Gt
     | y :: b' -> (match N.compare x y with
                   | Eq -> bcompare a' b'
                   | x0 -> x0))

(** val bltb : bytes -> bytes -> bool **)

let bltb a b =
  match bcompare a b with
  | Lt -> true
  | _ -> false

(** val bleb : bytes -> bytes -> bool **)

let bleb a b =
  match bcompare a b with
  | Gt -> false
  | _ -> true

(** val beqb : bytes -> bytes -> bool **)

let beqb a b =
  match bcompare a b with
  | Eq -> true
  | _ -> false

(** val has_prefix : bytes -> bytes -> bool **)

let rec has_prefix p0 k =
  match p0 with
  | [] -> true
  | x :: p' ->
    (match k with
     | [] -> false
     | y :: k' -> (&&) (N.eqb x y) (has_prefix p' k'))

(** val bitlen : z -> z **)

let bitlen z0 =
  if Z.eqb z0 Z0 then Z0 else Z.add (Z.log2 (Z.abs z0)) (Zpos XH)

(** val max_bit_len : z **)

let max_bit_len =
  Zpos (XI (XI (XI (XI (XI (XI (XI XH)))))))

(** val int_ok : z -> bool **)

let int_ok z0 =
  Z.leb (bitlen z0) max_bit_len

(** val int_chk : z -> z option **)

let int_chk z0 =
  if int_ok z0 then Some z0 else None

(** val int_new_from_big : z -> z option **)

let int_new_from_big =
  int_chk

(** val int_add : z -> z -> z option **)

let int_add a b =
  int_chk (Z.add a b)

(** val int_sub : z -> z -> z option **)

let int_sub a b =
  int_chk (Z.sub a b)

(** val int_mul : z -> z -> z option **)

let int_mul a b =
  if Z.gtb (Z.sub (Z.add (bitlen a) (bitlen b)) (Zpos XH)) max_bit_len
  then None
  else int_chk (Z.mul a b)

(** val int_quo : z -> z -> z option **)

let int_quo a b =
  if Z.eqb b Z0 then None else Some (Z.quot a b)

(** val euclid_mod : z -> z -> z **)

let euclid_mod a b =
  Z.modulo a (Z.abs b)

(** val int_mod : z -> z -> z option **)

let int_mod a b =
  if Z.eqb b Z0 then None else Some (euclid_mod a b)

(** val int_neg : z -> z **)

let int_neg =
  Z.opp

(** val int_min : z -> z -> z **)

let int_min a b =
  if Z.gtb a b then b else a

(** val int_max : z -> z -> z **)

let int_max a b =
  if Z.ltb a b then b else a

(** val is_int64 : z -> bool **)

let is_int64 z0 =
  (&&)
    (Z.leb (Z.opp (Z.pow (Zpos (XO XH)) (Zpos (XI (XI (XI (XI (XI XH))))))))
      z0) (Z.ltb z0 (Z.pow (Zpos (XO XH)) (Zpos (XI (XI (XI (XI (XI XH))))))))

(** val int_int64 : z -> z option **)

let int_int64 a =
  if is_int64 a then Some a else None

(** val uint_ok : z -> bool **)

let uint_ok z0 =
  (&&) (Z.leb Z0 z0)
    (Z.leb (bitlen z0) (Zpos (XO (XO (XO (XO (XO (XO (XO (XO XH))))))))))

(** val uint_chk : z -> z option **)

let uint_chk z0 =
  if uint_ok z0 then Some z0 else None

(** val uint_add : z -> z -> z option **)

let uint_add a b =
  uint_chk (Z.add a b)

(** val uint_sub : z -> z -> z option **)

let uint_sub a b =
  uint_chk (Z.sub a b)

(** val uint_mul : z -> z -> z option **)

let uint_mul a b =
  uint_chk (Z.mul a b)

(** val uint_quo : z -> z -> z option **)

let uint_quo a b =
  if Z.eqb b Z0 then None else uint_chk (Z.quot a b)

(** val is_uint64 : z -> bool **)

let is_uint64 z0 =
  (&&) (Z.leb Z0 z0)
    (Z.ltb z0 (Z.pow (Zpos (XO XH)) (Zpos (XO (XO (XO (XO (XO (XO XH)))))))))

(** val uint_uint64 : z -> z option **)

let uint_uint64 a =
  if is_uint64 a then Some a else None

(** val int_unmarshal : z -> z option **)

let int_unmarshal =
  int_chk

(** val uint_unmarshal : z -> z option **)

let uint_unmarshal =
  uint_chk

(** val power_reduction : z **)

let power_reduction =
  Z.pow (Zpos (XO (XI (XO XH)))) (Zpos (XO (XI XH)))

(** val tokens_to_power : z -> z option **)

let tokens_to_power t =
  match int_quo t power_reduction with
  | Some q -> int_int64 q
  | None -> None

(** val tokens_from_power : z -> z option **)

let tokens_from_power p0 =
  int_mul p0 power_reduction

(** val in_uint_b : z -> bool **)

let in_uint_b z0 =
  (&&) (Z.leb Z0 z0)
    (Z.ltb z0
      (Z.pow (Zpos (XO XH)) (Zpos (XO (XO (XO (XO (XO (XO (XO (XO XH)))))))))))

(** val p : z **)

let p =
  Z.pow (Zpos (XO (XI (XO XH)))) (Zpos (XO (XI (XO (XO XH)))))

(** val five_precision : z **)

let five_precision =
  Z.div p (Zpos (XO XH))

(** val dec_bits : z **)

let dec_bits =
  Z.add (Zpos (XI (XI (XI (XI (XI (XI (XI XH)))))))) (Zpos (XO (XO (XI (XI
    (XI XH))))))

(** val dec_ok : z -> bool **)

let dec_ok z0 =
  Z.leb (bitlen z0) dec_bits

(** val dec_chk : z -> z option **)

let dec_chk z0 =
  if dec_ok z0 then Some z0 else None

(** val chop_round_pos : z -> z **)

let chop_round_pos d =
  let q = Z.div d p in
  let r = Z.modulo d p in
  if Z.eqb r Z0
  then q
  else (match Z.compare r five_precision with
        | Eq -> if Z.even q then q else Z.add q (Zpos XH)
        | Lt -> q
        | Gt -> Z.add q (Zpos XH))

(** val chop_round : z -> z **)

let chop_round d =
  if Z.ltb d Z0 then Z.opp (chop_round_pos (Z.opp d)) else chop_round_pos d

(** val chop_trunc : z -> z **)

let chop_trunc d =
  Z.quot d p

(** val chop_round_up : z -> z **)

let chop_round_up d =
  if Z.ltb d Z0
  then Z.opp (chop_trunc (Z.opp d))
  else let q = Z.div d p in
       if Z.eqb (Z.modulo d p) Z0 then q else Z.add q (Zpos XH)

(** val dec_add : z -> z -> z option **)

let dec_add a b =
  dec_chk (Z.add a b)

(** val dec_sub : z -> z -> z option **)

let dec_sub a b =
  dec_chk (Z.sub a b)

(** val dec_mul : z -> z -> z option **)

let dec_mul a b =
  dec_chk (chop_round (Z.mul a b))

(** val dec_mul_truncate : z -> z -> z option **)

let dec_mul_truncate a b =
  dec_chk (chop_trunc (Z.mul a b))

(** val dec_mul_int : z -> z -> z option **)

let dec_mul_int a i =
  dec_chk (Z.mul a i)

(** val dec_quo : z -> z -> z option **)

let dec_quo a b =
  if Z.eqb b Z0
  then None
  else dec_chk (chop_round (Z.quot (Z.mul (Z.mul a p) p) b))

(** val dec_quo_truncate : z -> z -> z option **)

let dec_quo_truncate a b =
  if Z.eqb b Z0
  then None
  else dec_chk (chop_trunc (Z.quot (Z.mul (Z.mul a p) p) b))

(** val dec_quo_round_up : z -> z -> z option **)

let dec_quo_round_up a b =
  if Z.eqb b Z0
  then None
  else dec_chk (chop_round_up (Z.quot (Z.mul (Z.mul a p) p) b))

(** val dec_quo_int : z -> z -> z option **)

let dec_quo_int a i =
  if Z.eqb i Z0 then None else Some (Z.quot a i)

(** val dec_is_integer : z -> bool **)

let dec_is_integer a =
  Z.eqb (Z.rem a p) Z0

(** val dec_round_int64 : z -> z option **)

let dec_round_int64 a =
  int_int64 (chop_round a)

(** val dec_round_int : z -> z option **)

let dec_round_int a =
  int_new_from_big (chop_round a)

(** val dec_truncate_int64 : z -> z option **)

let dec_truncate_int64 a =
  int_int64 (chop_trunc a)

(** val dec_truncate_int : z -> z option **)

let dec_truncate_int a =
  int_new_from_big (chop_trunc a)

(** val dec_truncate_dec : z -> z **)

let dec_truncate_dec a =
  Z.mul (chop_trunc a) p

(** val dec_ceil : z -> z **)

let dec_ceil a =
  let q = Z.quot a p in
  let r = Z.rem a p in
  if Z.eqb r Z0
  then Z.mul q p
  else if Z.ltb r Z0 then Z.mul q p else Z.mul (Z.add q (Zpos XH)) p

(** val dec_from_int : z -> z **)

let dec_from_int i =
  Z.mul i p

(** val round_half_even : z -> z -> z **)

let round_half_even n0 d =
  let q = Z.div n0 d in
  let r = Z.modulo n0 d in
  (match Z.compare (Z.mul (Zpos (XO XH)) r) d with
   | Eq -> if Z.even q then q else Z.add q (Zpos XH)
   | Lt -> q
   | Gt -> Z.add q (Zpos XH))

(** val ceil_div : z -> z -> z **)

let ceil_div n0 d =
  Z.opp (Z.div (Z.opp n0) d)

(** val spec_quo : z -> z -> z **)

let spec_quo a b =
  if Z.ltb b Z0
  then round_half_even (Z.opp (Z.mul a p)) (Z.opp b)
  else round_half_even (Z.mul a p) b

(** val spec_quo_round_up : z -> z -> z **)

let spec_quo_round_up a b =
  if Z.ltb b Z0
  then ceil_div (Z.opp (Z.mul a p)) (Z.opp b)
  else ceil_div (Z.mul a p) b

(** val spec_quo_truncate : z -> z -> z **)

let spec_quo_truncate a b =
  Z.quot (Z.mul a p) b

(** val spec_mul : z -> z -> z **)

let spec_mul a b =
  round_half_even (Z.mul a b) p

type coin = bytes * z

type coins = coin list

(** val is_lower : n -> bool **)

let is_lower c =
  (&&) (N.leb (Npos (XI (XO (XO (XO (XO (XI XH))))))) c)
    (N.leb c (Npos (XO (XI (XO (XI (XI (XI XH))))))))

(** val is_digit : n -> bool **)

let is_digit c =
  (&&) (N.leb (Npos (XO (XO (XO (XO (XI XH)))))) c)
    (N.leb c (Npos (XI (XO (XO (XI (XI XH)))))))

(** val valid_denom : bytes -> bool **)

let valid_denom = function
| [] -> false
| c :: r ->
  (&&)
    ((&&)
      ((&&) (is_lower c)
        (forallb (fun x -> (||) (is_lower x) (is_digit x)) r))
      (Nat.leb (S (S O)) (length r)))
    (Nat.leb (length r) (S (S (S (S (S (S (S (S (S (S (S (S (S (S (S
      O))))))))))))))))

(** val remove_zero : coins -> coins **)

let rec remove_zero = function
| [] -> []
| c :: r ->
  let (d, a) = c in
  if Z.eqb a Z0 then remove_zero r else (d, a) :: (remove_zero r)

(** val safe_add : coins -> coins -> coins option **)

let rec safe_add a =
  let rec go b =
    match a with
    | [] -> Some (remove_zero b)
    | c :: a' ->
      let (da, xa) = c in
      (match b with
       | [] -> Some (remove_zero a)
       | c0 :: b' ->
         let (db, xb) = c0 in
         (match bcompare da db with
          | Eq ->
            (match int_add xa xb with
             | Some s ->
               (match safe_add a' b' with
                | Some r -> Some (if Z.eqb s Z0 then r else (da, s) :: r)
                | None -> None)
             | None -> None)
          | Lt ->
            (match safe_add a' b with
             | Some r -> Some (if Z.eqb xa Z0 then r else (da, xa) :: r)
             | None -> None)
          | Gt ->
            (match go b' with
             | Some r -> Some (if Z.eqb xb Z0 then r else (db, xb) :: r)
             | None -> None)))
  in go

(** val negative : coins -> coins **)

let negative cs =
  map (fun c -> ((fst c), (Z.opp (snd c)))) cs

(** val is_any_negative : coins -> bool **)

let is_any_negative cs =
  existsb (fun c -> Z.ltb (snd c) Z0) cs

(** val safe_sub : coins -> coins -> (coins * bool) option **)

let safe_sub a b =
  match safe_add a (negative b) with
  | Some d -> Some (d, (is_any_negative d))
  | None -> None

(** val coins_sub : coins -> coins -> coins option **)

let coins_sub a b =
  match safe_sub a b with
  | Some p0 -> let (d, b0) = p0 in if b0 then None else Some d
  | None -> None

(** val valid_tail : bytes -> coins -> bool **)

let rec valid_tail low = function
| [] -> true
| c :: r ->
  let (d, a) = c in (&&) ((&&) (bltb low d) (Z.ltb Z0 a)) (valid_tail d r)

(** val coins_valid : coins -> bool **)

let coins_valid = function
| [] -> true
| c :: r ->
  let (d, a) = c in (&&) ((&&) (valid_denom d) (Z.ltb Z0 a)) (valid_tail d r)

(** val amount_of_fuel : nat -> coins -> bytes -> z **)

let rec amount_of_fuel fuel cs d =
  match fuel with
  | O -> Z0
  | S f ->
    (match cs with
     | [] -> Z0
     | c :: l ->
       let (d0, a0) = c in
       (match l with
        | [] -> if beqb d0 d then a0 else Z0
        | _ :: _ ->
          let mid = Nat.div2 (length cs) in
          (match nth_error cs mid with
           | Some c0 ->
             let (dm, am) = c0 in
             (match bcompare d dm with
              | Eq -> am
              | Lt -> amount_of_fuel f (firstn mid cs) d
              | Gt -> amount_of_fuel f (skipn (S mid) cs) d)
           | None -> Z0)))

(** val amount_of : coins -> bytes -> z option **)

let amount_of cs d =
  if valid_denom d then Some (amount_of_fuel (length cs) cs d) else None

(** val ao : coins -> bytes -> z **)

let ao cs d =
  amount_of_fuel (length cs) cs d

(** val is_all_gte : coins -> coins -> bool **)

let is_all_gte a b = match b with
| [] -> true
| _ :: _ ->
  (match a with
   | [] -> false
   | _ :: _ -> forallb (fun cb -> negb (Z.gtb (snd cb) (ao a (fst cb)))) b)

(** val denoms_subset_of : coins -> coins -> bool **)

let denoms_subset_of a b =
  if Nat.ltb (length b) (length a)
  then false
  else forallb (fun c -> negb (Z.eqb (ao b (fst c)) Z0)) a

(** val is_all_gt : coins -> coins -> bool **)

let is_all_gt a b =
  match a with
  | [] -> false
  | _ :: _ ->
    (match b with
     | [] -> true
     | _ :: _ ->
       (&&) (denoms_subset_of b a)
         (forallb (fun cb -> Z.gtb (ao a (fst cb)) (snd cb)) b))

(** val is_any_gte : coins -> coins -> bool **)

let is_any_gte a b = match b with
| [] -> false
| _ :: _ ->
  existsb (fun c ->
    (&&) (Z.geb (snd c) (ao b (fst c))) (negb (Z.eqb (ao b (fst c)) Z0))) a

(** val coins_is_zero : coins -> bool **)

let coins_is_zero a =
  forallb (fun c -> Z.eqb (snd c) Z0) a

(** val coins_equal : coins -> coins -> bool option **)

let rec coins_equal a b =
  match a with
  | [] -> (match b with
           | [] -> Some true
           | _ :: _ -> Some false)
  | c :: a' ->
    let (da, xa) = c in
    (match b with
     | [] -> Some false
     | c0 :: b' ->
       let (db, xb) = c0 in
       if Nat.eqb (length a') (length b')
       then if beqb da db
            then if Z.eqb xa xb then coins_equal a' b' else Some false
            else None
       else Some false)

(** val insert_coin : coin -> coins -> coins **)

let rec insert_coin c l = match l with
| [] -> c :: []
| x :: r ->
  (match bcompare (fst c) (fst x) with
   | Gt -> x :: (insert_coin c r)
   | _ -> c :: l)

(** val sort_coins : coins -> coins **)

let sort_coins l =
  fold_right insert_coin [] l

(** val has_dup : coins -> bool **)

let rec has_dup = function
| [] -> false
| x :: r ->
  (match r with
   | [] -> false
   | y :: _ -> (||) (beqb (fst x) (fst y)) (has_dup r))

(** val new_coins : coins -> coins option **)

let new_coins cs =
  match remove_zero cs with
  | [] -> Some []
  | c :: l ->
    let s = sort_coins (c :: l) in
    if has_dup s then None else if coins_valid s then Some s else None

type 'v amap = (bytes * 'v) list

(** val aget : 'a1 amap -> bytes -> 'a1 option **)

let rec aget m k =
  match m with
  | [] -> None
  | p0 :: r ->
    let (k0, v0) = p0 in
    (match bcompare k k0 with
     | Eq -> Some v0
     | Lt -> None
     | Gt -> aget r k)

(** val aset : 'a1 amap -> bytes -> 'a1 -> 'a1 amap **)

let rec aset m k v =
  match m with
  | [] -> (k, v) :: []
  | p0 :: r ->
    let (k0, v0) = p0 in
    (match bcompare k k0 with
     | Eq -> (k, v) :: r
     | Lt -> (k, v) :: m
     | Gt -> (k0, v0) :: (aset r k v))

(** val adel : 'a1 amap -> bytes -> 'a1 amap **)

let rec adel m k =
  match m with
  | [] -> []
  | p0 :: r ->
    let (k0, v0) = p0 in
    (match bcompare k k0 with
     | Eq -> r
     | Lt -> m
     | Gt -> (k0, v0) :: (adel r k))

type kv = bytes amap

(** val in_domain : bytes -> bytes -> bytes option -> bool **)

let in_domain k s e =
  (&&) (bleb s k) (match e with
                   | Some e' -> bltb k e'
                   | None -> true)

(** val dir : bool -> 'a1 list -> 'a1 list **)

let dir asc l =
  if asc then l else rev l

(** val kv_range :
    'a1 amap -> bytes -> bytes option -> bool -> (bytes * 'a1) list **)

let kv_range m s e asc =
  dir asc (filter (fun p0 -> in_domain (fst p0) s e) m)

(** val prefix_end_rev : bytes -> bytes option **)

let rec prefix_end_rev = function
| [] -> None
| x :: r' ->
  if N.eqb x (Npos (XI (XI (XI (XI (XI (XI (XI XH))))))))
  then prefix_end_rev r'
  else Some ((N.add x (Npos XH)) :: r')

(** val prefix_end_bytes : bytes -> bytes option **)

let prefix_end_bytes p0 = match p0 with
| [] -> None
| _ :: _ ->
  (match prefix_end_rev (rev p0) with
   | Some r -> Some (rev r)
   | None -> None)

(** val inclusive_end_bytes : bytes -> bytes **)

let inclusive_end_bytes b =
  app b (N0 :: [])

(** val max_u64 : n **)

let max_u64 =
  Npos (XI (XI (XI (XI (XI (XI (XI (XI (XI (XI (XI (XI (XI (XI (XI (XI (XI
    (XI (XI (XI (XI (XI (XI (XI (XI (XI (XI (XI (XI (XI (XI (XI (XI (XI (XI
    (XI (XI (XI (XI (XI (XI (XI (XI (XI (XI (XI (XI (XI (XI (XI (XI (XI (XI
    (XI (XI (XI (XI (XI (XI (XI (XI (XI (XI
    XH)))))))))))))))))))))))))))))))))))))))))))))))))))))))))))))))

type gascfg = { g_has : n; g_delete : n; g_read_flat : n; g_read_byte : 
                n; g_write_flat : n; g_write_byte : n; g_iter_flat : 
                n }

type pkind =
| POutOfGas
| PGasOverflow
| PInvalidIter
| POther

type 'a res =
| Ok of 'a
| Panic of pkind

type tline = (n * bytes) * bytes

type world = { w_limit : n option; w_consumed : n; w_trace : tline list;
               w_cfg : gascfg }

(** val set_consumed : world -> n -> world **)

let set_consumed w c =
  { w_limit = w.w_limit; w_consumed = c; w_trace = w.w_trace; w_cfg =
    w.w_cfg }

(** val log : world -> tline -> world **)

let log w l =
  { w_limit = w.w_limit; w_consumed = w.w_consumed; w_trace =
    (l :: w.w_trace); w_cfg = w.w_cfg }

(** val consume : n -> world -> unit res * world **)

let consume amount w =
  if N.ltb (N.sub max_u64 w.w_consumed) amount
  then ((Panic PGasOverflow), (set_consumed w N0))
  else let c = N.add w.w_consumed amount in
       let w' = set_consumed w c in
       (match w.w_limit with
        | Some lim ->
          if N.ltb lim c then ((Panic POutOfGas), w') else ((Ok ()), w')
        | None -> ((Ok ()), w'))

(** val mul64 : n -> n -> n **)

let mul64 a b =
  N.modulo (N.mul a b) (Npos (XO (XO (XO (XO (XO (XO (XO (XO (XO (XO (XO (XO
    (XO (XO (XO (XO (XO (XO (XO (XO (XO (XO (XO (XO (XO (XO (XO (XO (XO (XO
    (XO (XO (XO (XO (XO (XO (XO (XO (XO (XO (XO (XO (XO (XO (XO (XO (XO (XO
    (XO (XO (XO (XO (XO (XO (XO (XO (XO (XO (XO (XO (XO (XO (XO (XO
    XH)))))))))))))))))))))))))))))))))))))))))))))))))))))))))))))))))

(** val blen : bytes -> n **)

let blen b =
  N.of_nat (length b)

(** val olen : bytes option -> n **)

let olen = function
| Some x -> blen x
| None -> N0

type centry = { ce_val : bytes option; ce_deleted : bool; ce_dirty : bool }

type mem_item = bytes * bytes option

type cstate = { c_cache : centry amap; c_unsorted : unit amap;
                c_sorted : mem_item list }

(** val c_empty : cstate **)

let c_empty =
  { c_cache = []; c_unsorted = []; c_sorted = [] }

(** val set_cache_value :
    cstate -> bytes -> bytes option -> bool -> bool -> cstate **)

let set_cache_value c k v deleted dirty =
  { c_cache =
    (aset c.c_cache k { ce_val = v; ce_deleted = deleted; ce_dirty = dirty });
    c_unsorted = (if dirty then aset c.c_unsorted k () else c.c_unsorted);
    c_sorted = c.c_sorted }

(** val merge_dirty : mem_item list -> mem_item list -> mem_item list **)

let rec merge_dirty un =
  let rec go so =
    match un with
    | [] -> so
    | u :: un' ->
      (match so with
       | [] -> un
       | s :: so' ->
         (match bcompare (fst u) (fst s) with
          | Eq -> u :: (merge_dirty un' so')
          | Lt -> u :: (merge_dirty un' so)
          | Gt -> s :: (go so')))
  in go

(** val cache_val : cstate -> bytes -> bytes option **)

let cache_val c k =
  match aget c.c_cache k with
  | Some e -> e.ce_val
  | None -> None

(** val dirty_items : cstate -> bytes -> bytes option -> cstate **)

let dirty_items c s e =
  let moved = filter (fun p0 -> in_domain (fst p0) s e) c.c_unsorted in
  let un = map (fun p0 -> ((fst p0), (cache_val c (fst p0)))) moved in
  { c_cache = c.c_cache; c_unsorted =
  (filter (fun p0 -> negb (in_domain (fst p0) s e)) c.c_unsorted); c_sorted =
  (merge_dirty un c.c_sorted) }

(** val mem_scan :
    bool -> bytes -> bytes option -> mem_item list -> mem_item list **)

let rec mem_scan entered s e = function
| [] -> []
| it :: r ->
  if in_domain (fst it) s e
  then it :: (mem_scan true s e r)
  else if entered then [] else mem_scan false s e r

(** val mem_items :
    cstate -> bytes -> bytes option -> bool -> mem_item list **)

let mem_items c s e asc =
  dir asc (mem_scan false s e c.c_sorted)

(** val cmp : bool -> bytes -> bytes -> comparison **)

let cmp asc a b =
  if asc then bcompare a b else compOpp (bcompare a b)

type miter = { mi_par : (bytes * bytes) list; mi_cac : mem_item list;
               mi_asc : bool }

(** val mk_miter : (bytes * bytes) list -> mem_item list -> bool -> miter **)

let mk_miter p0 c a =
  { mi_par = p0; mi_cac = c; mi_asc = a }

(** val skip_cache_deletes :
    bool -> bytes option -> mem_item list -> mem_item list **)

let rec skip_cache_deletes asc until cac = match cac with
| [] -> cac
| m :: r ->
  let (k, o) = m in
  (match o with
   | Some _ -> cac
   | None ->
     (match until with
      | Some u ->
        (match cmp asc k u with
         | Lt -> skip_cache_deletes asc until r
         | _ -> cac)
      | None -> skip_cache_deletes asc until r))

(** val skip_until : nat -> miter -> (miter * bool) option **)

let rec skip_until fuel it =
  match fuel with
  | O -> None
  | S f ->
    (match it.mi_par with
     | [] ->
       let c = skip_cache_deletes it.mi_asc None it.mi_cac in
       Some ((mk_miter [] c it.mi_asc),
       (match c with
        | [] -> false
        | _ :: _ -> true))
     | p0 :: pr ->
       let (kp, _) = p0 in
       (match it.mi_cac with
        | [] -> Some (it, true)
        | m :: cr ->
          let (kc, vc) = m in
          (match cmp it.mi_asc kp kc with
           | Eq ->
             (match vc with
              | Some _ -> Some (it, true)
              | None -> skip_until f (mk_miter pr cr it.mi_asc))
           | Lt -> Some (it, true)
           | Gt ->
             (match vc with
              | Some _ -> Some (it, true)
              | None ->
                skip_until f
                  (mk_miter it.mi_par
                    (skip_cache_deletes it.mi_asc (Some kp) it.mi_cac)
                    it.mi_asc)))))

(** val m_current : miter -> (bytes * bytes option) option **)

let m_current it =
  match it.mi_par with
  | [] -> (match it.mi_cac with
           | [] -> None
           | m :: _ -> Some m)
  | p0 :: _ ->
    let (kp, vp) = p0 in
    (match it.mi_cac with
     | [] -> Some (kp, (Some vp))
     | m :: _ ->
       let (kc, vc) = m in
       (match cmp it.mi_asc kp kc with
        | Eq -> Some (kp, vc)
        | Lt -> Some (kp, (Some vp))
        | Gt -> Some (kc, vc)))

(** val m_next : miter -> miter **)

let m_next it =
  match it.mi_par with
  | [] ->
    (match it.mi_cac with
     | [] -> it
     | _ :: cr -> mk_miter [] cr it.mi_asc)
  | p0 :: pr ->
    let (kp, _) = p0 in
    (match it.mi_cac with
     | [] -> mk_miter pr [] it.mi_asc
     | m :: cr ->
       let (kc, _) = m in
       (match cmp it.mi_asc kp kc with
        | Eq -> mk_miter pr cr it.mi_asc
        | Lt -> mk_miter pr it.mi_cac it.mi_asc
        | Gt -> mk_miter it.mi_par cr it.mi_asc))

(** val m_collect : nat -> miter -> (bytes * bytes) list option **)

let rec m_collect fuel it =
  match fuel with
  | O -> None
  | S f ->
    let sf = S (add (length it.mi_par) (length it.mi_cac)) in
    (match skip_until sf it with
     | Some p0 ->
       let (it1, b) = p0 in
       if b
       then (match m_current it1 with
             | Some p1 ->
               let (k, o) = p1 in
               (match o with
                | Some v ->
                  (match m_collect f (m_next it1) with
                   | Some r -> Some ((k, v) :: r)
                   | None -> None)
                | None -> None)
             | None -> None)
       else Some []
     | None -> None)

(** val merge_run :
    (bytes * bytes) list -> mem_item list -> bool -> (bytes * bytes) list
    option **)

let merge_run par cac asc =
  m_collect (S (add (length par) (length cac))) (mk_miter par cac asc)

type store =
| Base of kv
| Cache of cstate * store
| Prefix of bytes * store
| Gas of store
| Trace of store

type iter0 =
| IList of (bytes * bytes) list
| IPrefix of bytes * bool * iter0
| IGas of iter0
| ITrace of iter0

(** val strip : bytes -> bytes -> bytes **)

let strip pfx k =
  skipn (length pfx) k

(** val bind :
    ('a1 res * world) -> ('a1 -> world -> 'a2 res * world) -> 'a2 res * world **)

let bind x f =
  let (r, w) = x in (match r with
                     | Ok a -> f a w
                     | Panic k -> ((Panic k), w))

(** val it_valid : iter0 -> bool **)

let rec it_valid = function
| IList l -> (match l with
              | [] -> false
              | _ :: _ -> true)
| IPrefix (_, v, inner) -> (&&) v (it_valid inner)
| IGas inner -> it_valid inner
| ITrace inner -> it_valid inner

(** val it_key : iter0 -> world -> bytes res * world **)

let rec it_key it w =
  match it with
  | IList l ->
    (match l with
     | [] -> ((Panic PInvalidIter), w)
     | p0 :: _ -> let (k, _) = p0 in ((Ok k), w))
  | IPrefix (pfx, v, inner) ->
    if v
    then bind (it_key inner w) (fun k w' -> ((Ok (strip pfx k)), w'))
    else ((Panic PInvalidIter), w)
  | IGas inner -> it_key inner w
  | ITrace inner ->
    bind (it_key inner w) (fun k w' -> ((Ok k),
      (log w' (((Npos (XI XH)), k), []))))

(** val it_value : iter0 -> world -> bytes res * world **)

let rec it_value it w =
  match it with
  | IList l ->
    (match l with
     | [] -> ((Panic PInvalidIter), w)
     | p0 :: _ -> let (_, v) = p0 in ((Ok v), w))
  | IPrefix (_, v, inner) ->
    if v then it_value inner w else ((Panic PInvalidIter), w)
  | IGas inner -> it_value inner w
  | ITrace inner ->
    bind (it_value inner w) (fun v w' -> ((Ok v),
      (log w' (((Npos (XO (XO XH))), []), v))))

(** val seek_gas : iter0 -> world -> unit res * world **)

let seek_gas inner w =
  bind (it_value inner w) (fun v w1 ->
    bind (consume (mul64 w1.w_cfg.g_read_byte (blen v)) w1) (fun _ w2 ->
      consume w2.w_cfg.g_iter_flat w2))

(** val it_next : iter0 -> world -> (unit res * iter0) * world **)

let rec it_next it w =
  match it with
  | IList l ->
    (match l with
     | [] -> (((Panic PInvalidIter), it), w)
     | _ :: r -> (((Ok ()), (IList r)), w))
  | IPrefix (pfx, v, inner) ->
    if v
    then let (p0, w') = it_next inner w in
         let (r, inner') = p0 in
         (match r with
          | Ok _ ->
            if it_valid inner'
            then let (r0, w'') = it_key inner' w' in
                 (match r0 with
                  | Ok k ->
                    (((Ok ()), (IPrefix (pfx, (has_prefix pfx k), inner'))),
                      w'')
                  | Panic p1 ->
                    (((Panic p1), (IPrefix (pfx, v, inner'))), w''))
            else (((Ok ()), (IPrefix (pfx, false, inner'))), w')
          | Panic p1 -> (((Panic p1), (IPrefix (pfx, v, inner'))), w'))
    else (((Panic PInvalidIter), it), w)
  | IGas inner ->
    let (r, w1) = if it_valid inner then seek_gas inner w else ((Ok ()), w) in
    (match r with
     | Ok _ ->
       let (p0, w2) = it_next inner w1 in
       let (r2, inner') = p0 in ((r2, (IGas inner')), w2)
     | Panic p0 -> (((Panic p0), it), w1))
  | ITrace inner ->
    let (p0, w') = it_next inner w in
    let (r, inner') = p0 in ((r, (ITrace inner')), w')

(** val drain : iter0 -> (bytes * bytes) list **)

let rec drain = function
| IList l -> l
| IPrefix (pfx, v, inner) ->
  if v
  then let rec take = function
       | [] -> []
       | p0 :: r ->
         let (k, x) = p0 in
         if has_prefix pfx k then ((strip pfx k), x) :: (take r) else []
       in take (drain inner)
  else []
| _ -> []

(** val s_get :
    store -> bytes -> world -> (bytes option res * store) * world **)

let rec s_get s k w =
  match s with
  | Base m -> (((Ok (aget m k)), s), w)
  | Cache (c, p0) ->
    (match aget c.c_cache k with
     | Some e -> (((Ok e.ce_val), s), w)
     | None ->
       let (p1, w') = s_get p0 k w in
       let (r, p') = p1 in
       (match r with
        | Ok v ->
          (((Ok v), (Cache ((set_cache_value c k v false false), p'))), w')
        | Panic x -> (((Panic x), (Cache (c, p'))), w')))
  | Prefix (pfx, p0) ->
    let (p1, w') = s_get p0 (app pfx k) w in
    let (r, p') = p1 in ((r, (Prefix (pfx, p'))), w')
  | Gas p0 ->
    let (r, w1) = consume w.w_cfg.g_read_flat w in
    (match r with
     | Ok _ ->
       let (p1, w2) = s_get p0 k w1 in
       let (r0, p') = p1 in
       (match r0 with
        | Ok v ->
          let (r1, w3) = consume (mul64 w2.w_cfg.g_read_byte (olen v)) w2 in
          (match r1 with
           | Ok _ -> (((Ok v), (Gas p')), w3)
           | Panic x -> (((Panic x), (Gas p')), w3))
        | Panic x -> (((Panic x), (Gas p')), w2))
     | Panic x -> (((Panic x), s), w1))
  | Trace p0 ->
    let (p1, w') = s_get p0 k w in
    let (r, p') = p1 in
    (match r with
     | Ok v ->
       (((Ok v), (Trace p')),
         (log w' (((Npos XH), k), (match v with
                                   | Some x -> x
                                   | None -> []))))
     | Panic x -> (((Panic x), (Trace p')), w'))

(** val s_has : store -> bytes -> world -> (bool res * store) * world **)

let rec s_has s k w =
  match s with
  | Base m ->
    (((Ok (match aget m k with
           | Some _ -> true
           | None -> false)), s), w)
  | Cache (c, p0) ->
    (match aget c.c_cache k with
     | Some e ->
       (((Ok (match e.ce_val with
              | Some _ -> true
              | None -> false)), s), w)
     | None ->
       let (p1, w') = s_get p0 k w in
       let (r, p') = p1 in
       (match r with
        | Ok v ->
          (((Ok (match v with
                 | Some _ -> true
                 | None -> false)), (Cache
            ((set_cache_value c k v false false), p'))), w')
        | Panic x -> (((Panic x), (Cache (c, p'))), w')))
  | Prefix (pfx, p0) ->
    let (p1, w') = s_has p0 (app pfx k) w in
    let (r, p') = p1 in ((r, (Prefix (pfx, p'))), w')
  | Gas p0 ->
    let (r, w1) = consume w.w_cfg.g_has w in
    (match r with
     | Ok _ ->
       let (p1, w2) = s_has p0 k w1 in
       let (r0, p') = p1 in ((r0, (Gas p')), w2)
     | Panic x -> (((Panic x), s), w1))
  | Trace p0 ->
    let (p1, w') = s_has p0 k w in let (r, p') = p1 in ((r, (Trace p')), w')

(** val s_set :
    store -> bytes -> bytes -> world -> (unit res * store) * world **)

let rec s_set s k v w =
  match s with
  | Base m -> (((Ok ()), (Base (aset m k v))), w)
  | Cache (c, p0) ->
    (((Ok ()), (Cache ((set_cache_value c k (Some v) false true), p0))), w)
  | Prefix (pfx, p0) ->
    let (p1, w') = s_set p0 (app pfx k) v w in
    let (r, p') = p1 in ((r, (Prefix (pfx, p'))), w')
  | Gas p0 ->
    let (r, w1) = consume w.w_cfg.g_write_flat w in
    (match r with
     | Ok _ ->
       let (r0, w2) = consume (mul64 w1.w_cfg.g_write_byte (blen v)) w1 in
       (match r0 with
        | Ok _ ->
          let (p1, w3) = s_set p0 k v w2 in
          let (r1, p') = p1 in ((r1, (Gas p')), w3)
        | Panic x -> (((Panic x), s), w2))
     | Panic x -> (((Panic x), s), w1))
  | Trace p0 ->
    let (p1, w') = s_set p0 k v (log w ((N0, k), v)) in
    let (r, p') = p1 in ((r, (Trace p')), w')

(** val s_delete : store -> bytes -> world -> (unit res * store) * world **)

let rec s_delete s k w =
  match s with
  | Base m -> (((Ok ()), (Base (adel m k))), w)
  | Cache (c, p0) ->
    (((Ok ()), (Cache ((set_cache_value c k None true true), p0))), w)
  | Prefix (pfx, p0) ->
    let (p1, w') = s_delete p0 (app pfx k) w in
    let (r, p') = p1 in ((r, (Prefix (pfx, p'))), w')
  | Gas p0 ->
    let (r, w1) = consume w.w_cfg.g_delete w in
    (match r with
     | Ok _ ->
       let (p1, w2) = s_delete p0 k w1 in
       let (r0, p') = p1 in ((r0, (Gas p')), w2)
     | Panic x -> (((Panic x), s), w1))
  | Trace p0 ->
    let (p1, w') = s_delete p0 k (log w (((Npos (XO XH)), k), [])) in
    let (r, p') = p1 in ((r, (Trace p')), w')

(** val s_iter :
    store -> bytes -> bytes option -> bool -> world -> (iter0
    res * store) * world **)

let rec s_iter s st en asc w =
  match s with
  | Base m -> (((Ok (IList (kv_range m st en asc))), s), w)
  | Cache (c, p0) ->
    let (p1, w') = s_iter p0 st en asc w in
    let (r, p') = p1 in
    (match r with
     | Ok ip ->
       let c' = dirty_items c st en in
       (match merge_run (drain ip) (mem_items c' st en asc) asc with
        | Some l -> (((Ok (IList l)), (Cache (c', p'))), w')
        | None -> (((Panic POther), (Cache (c', p'))), w'))
     | Panic x -> (((Panic x), (Cache (c, p'))), w'))
  | Prefix (pfx, p0) ->
    let newend =
      match en with
      | Some e -> Some (app pfx e)
      | None -> prefix_end_bytes pfx
    in
    let (p1, w') = s_iter p0 (app pfx st) newend asc w in
    let (r, p') = p1 in
    (match r with
     | Ok ip ->
       if it_valid ip
       then let (r0, w'') = it_key ip w' in
            (match r0 with
             | Ok k ->
               (((Ok (IPrefix (pfx, (has_prefix pfx k), ip))), (Prefix (pfx,
                 p'))), w'')
             | Panic x -> (((Panic x), (Prefix (pfx, p'))), w''))
       else (((Ok (IPrefix (pfx, false, ip))), (Prefix (pfx, p'))), w')
     | Panic x -> (((Panic x), (Prefix (pfx, p'))), w'))
  | Gas p0 ->
    let (p1, w') = s_iter p0 st en asc w in
    let (r, p') = p1 in
    (match r with
     | Ok ip ->
       if it_valid ip
       then let (r0, w'') = seek_gas ip w' in
            (match r0 with
             | Ok _ -> (((Ok (IGas ip)), (Gas p')), w'')
             | Panic x -> (((Panic x), (Gas p')), w''))
       else (((Ok (IGas ip)), (Gas p')), w')
     | Panic x -> (((Panic x), (Gas p')), w'))
  | Trace p0 ->
    let (p1, w') = s_iter p0 st en asc w in
    let (r, p') = p1 in
    (((match r with
       | Ok ip -> Ok (ITrace ip)
       | Panic x -> Panic x), (Trace p')), w')

(** val write_entries :
    centry amap -> store -> world -> (unit res * store) * world **)

let rec write_entries es p0 w =
  match es with
  | [] -> (((Ok ()), p0), w)
  | p1 :: r ->
    let (k, e) = p1 in
    if e.ce_dirty
    then let (p2, w1) =
           if e.ce_deleted
           then s_delete p0 k w
           else (match e.ce_val with
                 | Some v -> s_set p0 k v w
                 | None -> (((Ok ()), p0), w))
         in
         let (res1, p3) = p2 in
         (match res1 with
          | Ok _ -> write_entries r p3 w1
          | Panic x -> (((Panic x), p3), w1))
    else write_entries r p0 w

(** val c_write : store -> world -> (unit res * store) * world **)

let c_write s w =
  match s with
  | Cache (c, p0) ->
    let (p1, w') = write_entries c.c_cache p0 w in
    let (r, p') = p1 in
    (match r with
     | Ok _ -> (((Ok ()), (Cache (c_empty, p'))), w')
     | Panic x -> (((Panic x), (Cache (c, p'))), w'))
  | _ -> (((Ok ()), s), w)

(** val at_depth :
    nat -> (store -> world -> ('a1 res * store) * world) -> store -> world ->
    ('a1 res * store) * world **)

let rec at_depth d f s w =
  match d with
  | O -> f s w
  | S d' ->
    (match s with
     | Base _ -> f s w
     | Cache (c, p0) ->
       let (p1, w') = at_depth d' f p0 w in
       let (r, p') = p1 in ((r, (Cache (c, p'))), w')
     | Prefix (pfx, p0) ->
       let (p1, w') = at_depth d' f p0 w in
       let (r, p') = p1 in ((r, (Prefix (pfx, p'))), w')
     | Gas p0 ->
       let (p1, w') = at_depth d' f p0 w in
       let (r, p') = p1 in ((r, (Gas p')), w')
     | Trace p0 ->
       let (p1, w') = at_depth d' f p0 w in
       let (r, p') = p1 in ((r, (Trace p')), w'))

(** val it_collect :
    nat -> iter0 -> world -> (bytes * bytes) list -> (bytes * bytes) list
    res * world **)

let rec it_collect fuel it w acc =
  match fuel with
  | O -> ((Panic POther), w)
  | S f ->
    if it_valid it
    then let (r, w1) = it_key it w in
         (match r with
          | Ok k ->
            let (r0, w2) = it_value it w1 in
            (match r0 with
             | Ok v ->
               let (p0, w3) = it_next it w2 in
               let (r1, it') = p0 in
               (match r1 with
                | Ok _ -> it_collect f it' w3 ((k, v) :: acc)
                | Panic x -> ((Panic x), w3))
             | Panic x -> ((Panic x), w2))
          | Panic x -> ((Panic x), w1))
    else ((Ok (rev acc)), w)

(** val it_size : iter0 -> nat **)

let rec it_size = function
| IList l -> length l
| IPrefix (_, _, i) -> it_size i
| IGas i -> it_size i
| ITrace i -> it_size i

(** val s_iter_all :
    store -> bytes -> bytes option -> bool -> world -> ((bytes * bytes) list
    res * store) * world **)

let s_iter_all s st en asc w =
  let (p0, w') = s_iter s st en asc w in
  let (r, s') = p0 in
  (match r with
   | Ok it ->
     let (r0, w'') = it_collect (S (it_size it)) it w' [] in ((r0, s'), w'')
   | Panic x -> (((Panic x), s'), w'))

(** val kv_gas_config : gascfg **)

let kv_gas_config =
  { g_has = (Npos (XO (XO (XO (XI (XO (XI (XI (XI (XI XH))))))))));
    g_delete = (Npos (XO (XO (XO (XI (XO (XI (XI (XI (XI XH))))))))));
    g_read_flat = (Npos (XO (XO (XO (XI (XO (XI (XI (XI (XI XH))))))))));
    g_read_byte = (Npos (XI XH)); g_write_flat = (Npos (XO (XO (XO (XO (XI
    (XO (XI (XI (XI (XI XH))))))))))); g_write_byte = (Npos (XO (XI (XI (XI
    XH))))); g_iter_flat = (Npos (XO (XI (XI (XI XH))))) }

(** val vget : (z * 'a1) list -> z -> 'a1 option **)

let rec vget m v =
  match m with
  | [] -> None
  | p0 :: r -> let (v0, x) = p0 in if Z.eqb v v0 then Some x else vget r v

(** val vset : (z * 'a1) list -> z -> 'a1 -> (z * 'a1) list **)

let rec vset m v x =
  match m with
  | [] -> (v, x) :: []
  | p0 :: r ->
    let (v0, y) = p0 in
    if Z.eqb v v0
    then (v, x) :: r
    else if Z.ltb v v0 then (v, x) :: m else (v0, y) :: (vset r v x)

(** val vdel : (z * 'a1) list -> z -> (z * 'a1) list **)

let vdel m v =
  filter (fun p0 -> negb (Z.eqb (fst p0) v)) m

(** val vmax : (z * 'a1) list -> z **)

let vmax m =
  fold_left (fun acc p0 -> Z.max acc (fst p0)) m Z0

(** val vhas : (z * 'a1) list -> z -> bool **)

let vhas m v =
  match vget m v with
  | Some _ -> true
  | None -> false

(** val kv_eqb : kv -> kv -> bool **)

let rec kv_eqb a b =
  match a with
  | [] -> (match b with
           | [] -> true
           | _ :: _ -> false)
  | p0 :: a' ->
    let (k1, v1) = p0 in
    (match b with
     | [] -> false
     | p1 :: b' ->
       let (k2, v2) = p1 in
       (&&) ((&&) (beqb k1 k2) (beqb v1 v2)) (kv_eqb a' b'))

type tree = { t_disk : (z * kv) list; t_work : kv; t_ver : z }

(** val tree_empty : tree **)

let tree_empty =
  { t_disk = []; t_work = []; t_ver = Z0 }

(** val save_version : tree -> tree option **)

let save_version t =
  let v = Z.add t.t_ver (Zpos XH) in
  (match vget t.t_disk v with
   | Some c ->
     if kv_eqb c t.t_work
     then Some { t_disk = t.t_disk; t_work = t.t_work; t_ver = v }
     else None
   | None ->
     Some { t_disk = (vset t.t_disk v t.t_work); t_work = t.t_work; t_ver =
       v })

type dres =
| DelOk of tree
| DelMissing
| DelLatest

(** val delete_version : tree -> z -> dres **)

let delete_version t v =
  if negb (vhas t.t_disk v)
  then DelMissing
  else if Z.eqb v t.t_ver
       then DelLatest
       else DelOk { t_disk = (vdel t.t_disk v); t_work = t.t_work; t_ver =
              t.t_ver }

(** val load_version : (z * kv) list -> z -> tree option **)

let load_version disk target =
  if Z.eqb target Z0
  then let v = vmax disk in
       (match vget disk v with
        | Some c -> Some { t_disk = disk; t_work = c; t_ver = v }
        | None -> Some { t_disk = disk; t_work = []; t_ver = Z0 })
  else (match vget disk target with
        | Some c -> Some { t_disk = disk; t_work = c; t_ver = target }
        | None -> None)

type prune = { keep_recent : z; keep_every : z }

(** val to_release : prune -> z -> z option **)

let to_release p0 version =
  let previous = Z.sub version (Zpos XH) in
  if Z.ltb p0.keep_recent previous
  then let r = Z.sub previous p0.keep_recent in
       if (||) (Z.eqb p0.keep_every Z0)
            (negb (Z.eqb (Z.rem r p0.keep_every) Z0))
       then Some r
       else None
  else None

(** val store_commit : prune -> tree -> (tree * tree list) option **)

let store_commit p0 t =
  match save_version t with
  | Some t1 ->
    (match to_release p0 t1.t_ver with
     | Some r ->
       (match delete_version t1 r with
        | DelOk t2 -> Some (t2, (t1 :: (t2 :: [])))
        | DelMissing -> Some (t1, (t1 :: []))
        | DelLatest -> None)
     | None -> Some (t1, (t1 :: [])))
  | None -> None

type hash = kv

type cinfo = (bytes * (z * hash)) list

type mstore = { ms_trees : (bytes * tree) list; ms_infos : (z * cinfo) list;
                ms_latest : z; ms_last : (z * cinfo); ms_prune : prune;
                ms_transient : (bytes * kv) list }

(** val insert_info : (bytes * (z * hash)) -> cinfo -> cinfo **)

let rec insert_info x l = match l with
| [] -> x :: []
| y :: r ->
  (match bcompare (fst x) (fst y) with
   | Gt -> y :: (insert_info x r)
   | _ -> x :: l)

(** val sort_infos : cinfo -> cinfo **)

let sort_infos l =
  fold_right insert_info [] l

(** val commit_trees :
    prune -> (bytes * tree) list -> nat option -> ((((bytes * tree)
    list * cinfo) * nat option) * bool) option **)

let rec commit_trees p0 ts budget =
  match ts with
  | [] -> Some ((([], []), budget), false)
  | p1 :: r ->
    let (name, t) = p1 in
    (match store_commit p0 t with
     | Some p2 ->
       let (tfinal, units) = p2 in
       let n0 = length units in
       (match budget with
        | Some b ->
          if Nat.ltb b n0
          then let t' = match b with
                        | O -> t
                        | S b' -> nth b' units t in
               Some (((((name, t') :: r), []), (Some O)), true)
          else (match commit_trees p0 r (Some (sub b n0)) with
                | Some p3 ->
                  let (p4, crashed) = p3 in
                  let (p5, bl) = p4 in
                  let (r', infos) = p5 in
                  Some (((((name, tfinal) :: r'), ((name, (tfinal.t_ver,
                  tfinal.t_work)) :: infos)), bl), crashed)
                | None -> None)
        | None ->
          (match commit_trees p0 r None with
           | Some p3 ->
             let (p4, crashed) = p3 in
             let (p5, bl) = p4 in
             let (r', infos) = p5 in
             Some (((((name, tfinal) :: r'), ((name, (tfinal.t_ver,
             tfinal.t_work)) :: infos)), bl), crashed)
           | None -> None))
     | None -> None)

(** val commit : mstore -> nat option -> (mstore * bool) option **)

let commit ms budget =
  let version = Z.add (fst ms.ms_last) (Zpos XH) in
  (match commit_trees ms.ms_prune ms.ms_trees budget with
   | Some p0 ->
     let (p1, crashed) = p0 in
     let (p2, bl) = p1 in
     let (ts, infos) = p2 in
     let flush =
       match bl with
       | Some n0 -> (match n0 with
                     | O -> false
                     | S _ -> true)
       | None -> true
     in
     if (||) crashed (negb flush)
     then Some ({ ms_trees = ts; ms_infos = ms.ms_infos; ms_latest =
            ms.ms_latest; ms_last = ms.ms_last; ms_prune = ms.ms_prune;
            ms_transient = ms.ms_transient }, true)
     else Some ({ ms_trees = ts; ms_infos = (vset ms.ms_infos version infos);
            ms_latest = version; ms_last = (version, (sort_infos infos));
            ms_prune = ms.ms_prune; ms_transient =
            (map (fun p3 -> ((fst p3), [])) ms.ms_transient) }, false)
   | None -> None)

(** val load_trees :
    (bytes * tree) list -> cinfo option -> (bytes * tree) list option **)

let rec load_trees ts info =
  match ts with
  | [] -> Some []
  | p0 :: r ->
    let (name, t) = p0 in
    let target =
      match info with
      | Some ci ->
        (match find (fun p1 -> beqb (fst p1) name) ci with
         | Some p1 -> fst (snd p1)
         | None -> Z0)
      | None -> Z0
    in
    (match load_version t.t_disk target with
     | Some t' ->
       (match load_trees r info with
        | Some r' -> Some ((name, t') :: r')
        | None -> None)
     | None -> None)

(** val load_ms : mstore -> z -> mstore option **)

let load_ms ms ver =
  if Z.eqb ver Z0
  then (match load_trees ms.ms_trees None with
        | Some ts ->
          Some { ms_trees = ts; ms_infos = ms.ms_infos; ms_latest =
            ms.ms_latest; ms_last = (Z0, []); ms_prune = ms.ms_prune;
            ms_transient = (map (fun p0 -> ((fst p0), [])) ms.ms_transient) }
        | None -> None)
  else (match vget ms.ms_infos ver with
        | Some ci ->
          (match load_trees ms.ms_trees (Some ci) with
           | Some ts ->
             Some { ms_trees = ts; ms_infos = ms.ms_infos; ms_latest =
               ms.ms_latest; ms_last = (ver, (sort_infos ci)); ms_prune =
               ms.ms_prune; ms_transient =
               (map (fun p0 -> ((fst p0), [])) ms.ms_transient) }
           | None -> None)
        | None -> None)

(** val reopen : mstore -> mstore option **)

let reopen ms =
  load_ms ms ms.ms_latest

(** val upd_tree :
    (bytes * tree) list -> bytes -> (kv -> kv) -> (bytes * tree) list **)

let rec upd_tree ts name f =
  match ts with
  | [] -> []
  | p0 :: r ->
    let (n0, t) = p0 in
    if beqb n0 name
    then (n0, { t_disk = t.t_disk; t_work = (f t.t_work); t_ver =
           t.t_ver }) :: r
    else (n0, t) :: (upd_tree r name f)

(** val ms_set : mstore -> bytes -> bytes -> bytes -> mstore **)

let ms_set ms name k v =
  { ms_trees = (upd_tree ms.ms_trees name (fun m -> aset m k v)); ms_infos =
    ms.ms_infos; ms_latest = ms.ms_latest; ms_last = ms.ms_last; ms_prune =
    ms.ms_prune; ms_transient = ms.ms_transient }

(** val ms_delete : mstore -> bytes -> bytes -> mstore **)

let ms_delete ms name k =
  { ms_trees = (upd_tree ms.ms_trees name (fun m -> adel m k)); ms_infos =
    ms.ms_infos; ms_latest = ms.ms_latest; ms_last = ms.ms_last; ms_prune =
    ms.ms_prune; ms_transient = ms.ms_transient }

(** val ms_tset : mstore -> bytes -> bytes -> bytes -> mstore **)

let ms_tset ms name k v =
  { ms_trees = ms.ms_trees; ms_infos = ms.ms_infos; ms_latest = ms.ms_latest;
    ms_last = ms.ms_last; ms_prune = ms.ms_prune; ms_transient =
    (map (fun p0 ->
      if beqb (fst p0) name then ((fst p0), (aset (snd p0) k v)) else p0)
      ms.ms_transient) }

(** val ms_set_pruning : mstore -> prune -> mstore **)

let ms_set_pruning ms p0 =
  { ms_trees = ms.ms_trees; ms_infos = ms.ms_infos; ms_latest = ms.ms_latest;
    ms_last = ms.ms_last; ms_prune = p0; ms_transient = ms.ms_transient }

type qres =
| QValue of bytes option
| QNoVersion
| QNoStore

(** val ms_query : mstore -> bytes -> bytes -> z -> qres **)

let ms_query ms name key h =
  match find (fun p0 -> beqb (fst p0) name) ms.ms_trees with
  | Some p0 ->
    let (_, t) = p0 in
    let height0 =
      if Z.eqb h Z0
      then if vhas t.t_disk (Z.sub t.t_ver (Zpos XH))
           then Z.sub t.t_ver (Zpos XH)
           else t.t_ver
      else h
    in
    (match vget t.t_disk height0 with
     | Some c -> QValue (aget c key)
     | None -> QNoVersion)
  | None -> QNoStore

(** val pick : (bytes * tree) list -> bytes -> (bytes * tree) list **)

let pick ts name =
  filter (fun p0 -> beqb (fst p0) name) ts

(** val reorder : (bytes * tree) list -> bytes list -> (bytes * tree) list **)

let reorder ts order =
  app (flat_map (pick ts) order)
    (filter (fun p0 -> negb (existsb (beqb (fst p0)) order)) ts)

(** val restore : bytes list -> (bytes * tree) list -> (bytes * tree) list **)

let restore mount ts =
  flat_map (pick ts) mount

(** val commit_in_order :
    mstore -> bytes list -> nat option -> (mstore * bool) option **)

let commit_in_order ms order budget =
  let mount = map fst ms.ms_trees in
  let ms1 = { ms_trees = (reorder ms.ms_trees order); ms_infos = ms.ms_infos;
    ms_latest = ms.ms_latest; ms_last = ms.ms_last; ms_prune = ms.ms_prune;
    ms_transient = ms.ms_transient }
  in
  (match commit ms1 budget with
   | Some p0 ->
     let (ms2, crashed) = p0 in
     Some ({ ms_trees = (restore mount ms2.ms_trees); ms_infos =
     ms2.ms_infos; ms_latest = ms2.ms_latest; ms_last = ms2.ms_last;
     ms_prune = ms2.ms_prune; ms_transient = ms2.ms_transient }, crashed)
   | None -> None)

(** val ms_init : bytes list -> prune -> mstore **)

let ms_init names p0 =
  { ms_trees = (map (fun n0 -> (n0, tree_empty)) names); ms_infos = [];
    ms_latest = Z0; ms_last = (Z0, []); ms_prune = p0; ms_transient =
    ((((Npos (XO (XO (XI (XO (XI (XI XH))))))) :: ((Npos (XO (XI (XO (XO (XI
    (XI XH))))))) :: [])), []) :: []) }

type pkey =
| PK of n
| PMulti of pkey list

type sg =
| SPlain of n * n
| SMulti of sg list
| SGarbage

(** val verify : pkey -> n -> sg -> bool **)

let rec verify k m s =
  match k with
  | PK id ->
    (match s with
     | SPlain (b, o) -> (&&) (N.eqb b id) (N.eqb o m)
     | _ -> false)
  | PMulti ks ->
    (match s with
     | SMulti sigs ->
       let rec go ks0 sigs0 =
         match ks0 with
         | [] -> (match sigs0 with
                  | [] -> true
                  | _ :: _ -> false)
         | k1 :: kr ->
           (match sigs0 with
            | [] -> false
            | s1 :: sr -> (&&) (verify k1 m s1) (go kr sr))
       in go ks sigs
     | _ -> false)

type armor = n * bytes

(** val unarmor : armor -> bytes -> n option **)

let unarmor a pass =
  if beqb (snd a) pass then Some (fst a) else None

(** val addr_of : n -> bytes **)

let addr_of id =
  id :: []

type kb = armor amap

type kres =
| KOk
| KErr
| KSig of sg
| KArmor of armor

type kop =
| KCreate of n * bytes
| KImport of armor * bytes * bytes
| KUpdate of bytes * bytes * bytes
| KDelete of bytes * bytes
| KSign of bytes * bytes * n
| KExport of bytes * bytes * bytes

(** val kstep : kb -> kop -> kb * kres **)

let kstep s = function
| KCreate (id, pass) -> ((aset s (addr_of id) (id, pass)), KOk)
| KImport (a, dp, np) ->
  (match unarmor a dp with
   | Some id ->
     (match aget s (addr_of id) with
      | Some _ -> (s, KErr)
      | None -> ((aset s (addr_of id) (id, np)), KOk))
   | None -> (s, KErr))
| KUpdate (ad, op, np) ->
  (match aget s ad with
   | Some a ->
     (match unarmor a op with
      | Some id -> ((aset s (addr_of id) (id, np)), KOk)
      | None -> (s, KErr))
   | None -> (s, KErr))
| KDelete (ad, p0) ->
  (match aget s ad with
   | Some a ->
     (match unarmor a p0 with
      | Some _ -> ((adel s ad), KOk)
      | None -> (s, KErr))
   | None -> (s, KErr))
| KSign (ad, p0, m) ->
  (match aget s ad with
   | Some a ->
     (match unarmor a p0 with
      | Some id -> (s, (KSig (SPlain (id, m))))
      | None -> (s, KErr))
   | None -> (s, KErr))
| KExport (ad, dp, ep) ->
  (match aget s ad with
   | Some a ->
     (match unarmor a dp with
      | Some id -> (s, (KArmor (id, ep)))
      | None -> (s, KErr))
   | None -> (s, KErr))

(** val be_bytes : nat -> z -> bytes **)

let rec be_bytes n0 z0 =
  match n0 with
  | O -> []
  | S n' ->
    app
      (be_bytes n'
        (Z.div z0 (Zpos (XO (XO (XO (XO (XO (XO (XO (XO XH)))))))))))
      ((Z.to_N
         (Z.modulo z0 (Zpos (XO (XO (XO (XO (XO (XO (XO (XO XH))))))))))) :: [])

(** val le_bytes : nat -> z -> bytes **)

let rec le_bytes n0 z0 =
  match n0 with
  | O -> []
  | S n' ->
    (Z.to_N (Z.modulo z0 (Zpos (XO (XO (XO (XO (XO (XO (XO (XO XH))))))))))) :: 
      (le_bytes n'
        (Z.div z0 (Zpos (XO (XO (XO (XO (XO (XO (XO (XO XH)))))))))))

(** val inv_bytes : bytes -> bytes **)

let inv_bytes b =
  map (fun x -> N.sub (Npos (XI (XI (XI (XI (XI (XI (XI XH)))))))) x) b

(** val power_of : z -> z **)

let power_of tokens =
  Z.quot tokens (Zpos (XO (XO (XO (XO (XO (XO (XI (XO (XO (XI (XO (XO (XO (XO
    (XI (XO (XI (XI (XI XH))))))))))))))))))))

(** val rank_key : z -> bytes -> bytes **)

let rank_key tokens addr =
  app (be_bytes (S (S (S (S (S (S (S (S O)))))))) (power_of tokens))
    (inv_bytes addr)

(** val missed_key : bytes -> z -> bytes **)

let missed_key addr i =
  app addr (le_bytes (S (S (S (S (S (S (S (S O)))))))) i)

(** val time_key : z -> bytes **)

let time_key t =
  be_bytes (S (S (S (S (S (S (S (S O)))))))) t

type validator = { v_pk : bytes; v_jailed : bool; v_status : n; v_tokens : 
                   z; v_unstime : z }

type signinfo = { si_start : z; si_offset : z; si_jailed_until : z;
                  si_tomb : bool; si_missed : z }

type pparams = { p_unstaking_time : z; p_max_validators : z; p_min_stake : 
                 z; p_max_evidence_age : z; p_window : z; p_min_signed : 
                 z; p_downtime_jail : z; p_slash_ds : z; p_slash_dt : 
                 z }

type aparams = { a_max_memo : z; a_sig_limit : z; a_fee_default : z;
                 a_fee_multis : (bytes * z) list }

type modaddrs = { m_fee : bytes; m_pool : bytes; m_pos : bytes; m_dao : bytes }

type state = { accts : z amap; supply : z; vals : validator amap;
               powidx : bytes amap; prevpow : z amap; prevtotal : z;
               unstq : bytes list amap; sinfo : signinfo amap;
               missed : bool amap; awards : z amap; burns : z amap;
               proposer : bytes option; pkrel : bytes amap; pp : pparams;
               ap : aparams; ma : modaddrs; acl : (bytes * bytes) list;
               dao_owner : bytes; params_raw : bytes amap; height : z;
               btime : z; haspk : bytes amap }

(** val set_bank : state -> z amap -> z -> state **)

let set_bank s a sup =
  { accts = a; supply = sup; vals = s.vals; powidx = s.powidx; prevpow =
    s.prevpow; prevtotal = s.prevtotal; unstq = s.unstq; sinfo = s.sinfo;
    missed = s.missed; awards = s.awards; burns = s.burns; proposer =
    s.proposer; pkrel = s.pkrel; pp = s.pp; ap = s.ap; ma = s.ma; acl =
    s.acl; dao_owner = s.dao_owner; params_raw = s.params_raw; height =
    s.height; btime = s.btime; haspk = s.haspk }

(** val set_vals : state -> validator amap -> state **)

let set_vals s v =
  { accts = s.accts; supply = s.supply; vals = v; powidx = s.powidx;
    prevpow = s.prevpow; prevtotal = s.prevtotal; unstq = s.unstq; sinfo =
    s.sinfo; missed = s.missed; awards = s.awards; burns = s.burns;
    proposer = s.proposer; pkrel = s.pkrel; pp = s.pp; ap = s.ap; ma = s.ma;
    acl = s.acl; dao_owner = s.dao_owner; params_raw = s.params_raw; height =
    s.height; btime = s.btime; haspk = s.haspk }

(** val set_powidx : state -> bytes amap -> state **)

let set_powidx s p0 =
  { accts = s.accts; supply = s.supply; vals = s.vals; powidx = p0; prevpow =
    s.prevpow; prevtotal = s.prevtotal; unstq = s.unstq; sinfo = s.sinfo;
    missed = s.missed; awards = s.awards; burns = s.burns; proposer =
    s.proposer; pkrel = s.pkrel; pp = s.pp; ap = s.ap; ma = s.ma; acl =
    s.acl; dao_owner = s.dao_owner; params_raw = s.params_raw; height =
    s.height; btime = s.btime; haspk = s.haspk }

(** val set_prev : state -> z amap -> z -> state **)

let set_prev s p0 t =
  { accts = s.accts; supply = s.supply; vals = s.vals; powidx = s.powidx;
    prevpow = p0; prevtotal = t; unstq = s.unstq; sinfo = s.sinfo; missed =
    s.missed; awards = s.awards; burns = s.burns; proposer = s.proposer;
    pkrel = s.pkrel; pp = s.pp; ap = s.ap; ma = s.ma; acl = s.acl;
    dao_owner = s.dao_owner; params_raw = s.params_raw; height = s.height;
    btime = s.btime; haspk = s.haspk }

(** val set_unstq : state -> bytes list amap -> state **)

let set_unstq s q =
  { accts = s.accts; supply = s.supply; vals = s.vals; powidx = s.powidx;
    prevpow = s.prevpow; prevtotal = s.prevtotal; unstq = q; sinfo = s.sinfo;
    missed = s.missed; awards = s.awards; burns = s.burns; proposer =
    s.proposer; pkrel = s.pkrel; pp = s.pp; ap = s.ap; ma = s.ma; acl =
    s.acl; dao_owner = s.dao_owner; params_raw = s.params_raw; height =
    s.height; btime = s.btime; haspk = s.haspk }

(** val set_sign : state -> signinfo amap -> bool amap -> state **)

let set_sign s si mi =
  { accts = s.accts; supply = s.supply; vals = s.vals; powidx = s.powidx;
    prevpow = s.prevpow; prevtotal = s.prevtotal; unstq = s.unstq; sinfo =
    si; missed = mi; awards = s.awards; burns = s.burns; proposer =
    s.proposer; pkrel = s.pkrel; pp = s.pp; ap = s.ap; ma = s.ma; acl =
    s.acl; dao_owner = s.dao_owner; params_raw = s.params_raw; height =
    s.height; btime = s.btime; haspk = s.haspk }

(** val set_queues : state -> z amap -> z amap -> state **)

let set_queues s aw bu =
  { accts = s.accts; supply = s.supply; vals = s.vals; powidx = s.powidx;
    prevpow = s.prevpow; prevtotal = s.prevtotal; unstq = s.unstq; sinfo =
    s.sinfo; missed = s.missed; awards = aw; burns = bu; proposer =
    s.proposer; pkrel = s.pkrel; pp = s.pp; ap = s.ap; ma = s.ma; acl =
    s.acl; dao_owner = s.dao_owner; params_raw = s.params_raw; height =
    s.height; btime = s.btime; haspk = s.haspk }

(** val set_misc : state -> bytes option -> bytes amap -> state **)

let set_misc s pr pk =
  { accts = s.accts; supply = s.supply; vals = s.vals; powidx = s.powidx;
    prevpow = s.prevpow; prevtotal = s.prevtotal; unstq = s.unstq; sinfo =
    s.sinfo; missed = s.missed; awards = s.awards; burns = s.burns;
    proposer = pr; pkrel = pk; pp = s.pp; ap = s.ap; ma = s.ma; acl = s.acl;
    dao_owner = s.dao_owner; params_raw = s.params_raw; height = s.height;
    btime = s.btime; haspk = s.haspk }

(** val set_params :
    state -> pparams -> aparams -> (bytes * bytes) list -> bytes -> bytes
    amap -> state **)

let set_params s p0 a ac d raw =
  { accts = s.accts; supply = s.supply; vals = s.vals; powidx = s.powidx;
    prevpow = s.prevpow; prevtotal = s.prevtotal; unstq = s.unstq; sinfo =
    s.sinfo; missed = s.missed; awards = s.awards; burns = s.burns;
    proposer = s.proposer; pkrel = s.pkrel; pp = p0; ap = a; ma = s.ma; acl =
    ac; dao_owner = d; params_raw = raw; height = s.height; btime = s.btime;
    haspk = s.haspk }

(** val set_block : state -> z -> z -> state **)

let set_block s h t =
  { accts = s.accts; supply = s.supply; vals = s.vals; powidx = s.powidx;
    prevpow = s.prevpow; prevtotal = s.prevtotal; unstq = s.unstq; sinfo =
    s.sinfo; missed = s.missed; awards = s.awards; burns = s.burns;
    proposer = s.proposer; pkrel = s.pkrel; pp = s.pp; ap = s.ap; ma = s.ma;
    acl = s.acl; dao_owner = s.dao_owner; params_raw = s.params_raw; height =
    h; btime = t; haspk = s.haspk }

(** val bal : state -> bytes -> z **)

let bal s a =
  match aget s.accts a with
  | Some b -> b
  | None -> Z0

(** val bank_send : state -> bytes -> bytes -> z -> state option **)

let bank_send s from to0 amt =
  if (||) (Z.ltb amt Z0) (Z.ltb (bal s from) amt)
  then None
  else let a1 = aset s.accts from (Z.sub (bal s from) amt) in
       let b_to = match aget a1 to0 with
                  | Some b -> b
                  | None -> Z0 in
       Some (set_bank s (aset a1 to0 (Z.add b_to amt)) s.supply)

(** val bank_mint : state -> bytes -> z -> state option **)

let bank_mint s modl amt =
  if Z.ltb amt Z0
  then None
  else Some
         (set_bank s (aset s.accts modl (Z.add (bal s modl) amt))
           (Z.add s.supply amt))

(** val bank_burn : state -> bytes -> z -> state option **)

let bank_burn s modl amt =
  if (||) (Z.ltb amt Z0) (Z.ltb (bal s modl) amt)
  then None
  else Some
         (set_bank s (aset s.accts modl (Z.sub (bal s modl) amt))
           (Z.sub s.supply amt))

(** val get_val : state -> bytes -> validator option **)

let get_val s a =
  aget s.vals a

(** val put_val : state -> bytes -> validator -> state **)

let put_val s a v =
  set_vals s (aset s.vals a v)

(** val with_tokens : validator -> z -> validator **)

let with_tokens v t =
  { v_pk = v.v_pk; v_jailed = v.v_jailed; v_status = v.v_status; v_tokens =
    t; v_unstime = v.v_unstime }

(** val with_status : validator -> n -> validator **)

let with_status v st =
  { v_pk = v.v_pk; v_jailed = v.v_jailed; v_status = st; v_tokens =
    v.v_tokens; v_unstime = v.v_unstime }

(** val with_jailed : validator -> bool -> validator **)

let with_jailed v j =
  { v_pk = v.v_pk; v_jailed = j; v_status = v.v_status; v_tokens =
    v.v_tokens; v_unstime = v.v_unstime }

(** val with_unstime : validator -> z -> validator **)

let with_unstime v t =
  { v_pk = v.v_pk; v_jailed = v.v_jailed; v_status = v.v_status; v_tokens =
    v.v_tokens; v_unstime = t }

(** val set_staked : state -> bytes -> validator -> state **)

let set_staked s a v =
  if (||) v.v_jailed (negb (N.eqb v.v_status (Npos (XO XH))))
  then s
  else set_powidx s (aset s.powidx (rank_key v.v_tokens a) a)

(** val del_staked : state -> bytes -> validator -> state **)

let del_staked s a v =
  set_powidx s (adel s.powidx (rank_key v.v_tokens a))

(** val burn_staked : state -> z -> state option **)

let burn_staked s amt =
  if Z.leb amt Z0 then None else bank_burn s s.ma.m_pool amt

(** val del_unstaking : state -> bytes -> validator -> state **)

let del_unstaking s a v =
  let q =
    match aget s.unstq (time_key v.v_unstime) with
    | Some l -> l
    | None -> []
  in
  let q' = filter (fun x -> negb (beqb x a)) q in
  set_unstq s
    (match q' with
     | [] -> adel s.unstq (time_key v.v_unstime)
     | _ :: _ -> aset s.unstq (time_key v.v_unstime) q')

(** val force_unstake : state -> bytes -> validator -> state option **)

let force_unstake s a v =
  let s0 = del_staked s a v in
  let s1 = if N.eqb v.v_status (Npos XH) then del_unstaking s0 a v else s0 in
  (match if Z.ltb Z0 v.v_tokens then burn_staked s1 v.v_tokens else Some s1 with
   | Some s2 -> Some (put_val s2 a (with_status (with_tokens v Z0) N0))
   | None -> None)

type sres =
| SOk of state
| SErr of state
| SPanic

(** val slash : state -> bytes -> z -> z -> z -> sres **)

let slash s a infraction_h power factor =
  if Z.ltb factor Z0
  then SErr s
  else if Z.ltb s.height infraction_h
       then SErr s
       else (match get_val s a with
             | Some v ->
               if N.eqb v.v_status N0
               then SErr s
               else (match tokens_from_power power with
                     | Some amount ->
                       (match dec_mul (dec_from_int amount) factor with
                        | Some d ->
                          (match dec_truncate_int d with
                           | Some slash_amt ->
                             let burn = Z.max (Z.min slash_amt v.v_tokens) Z0
                             in
                             let s1 = del_staked s a v in
                             let v1 = with_tokens v (Z.sub v.v_tokens burn) in
                             let s2 = set_staked (put_val s1 a v1) a v1 in
                             (match burn_staked s2 burn with
                              | Some s3 ->
                                if Z.ltb v1.v_tokens s3.pp.p_min_stake
                                then (match force_unstake s3 a v1 with
                                      | Some s4 -> SOk s4
                                      | None -> SErr s3)
                                else SOk s3
                              | None -> SErr s2)
                           | None -> SPanic)
                        | None -> SPanic)
                     | None -> SPanic)
             | None -> SErr s)

(** val jail : state -> bytes -> state option **)

let jail s a =
  match get_val s a with
  | Some v ->
    if v.v_jailed
    then None
    else let v1 = with_jailed v true in
         Some (del_staked (put_val s a v1) a v1)
  | None -> None

(** val unjail : state -> bytes -> state option **)

let unjail s a =
  match get_val s a with
  | Some v ->
    if v.v_jailed
    then let v1 = with_jailed v false in
         Some (set_staked (put_val s a v1) a v1)
    else None
  | None -> None

(** val min_signed_per_window : pparams -> z **)

let min_signed_per_window p0 =
  chop_round (Z.mul p0.p_min_signed p0.p_window)

(** val handle_signature : state -> bytes -> z -> bool -> state option **)

let handle_signature s a power signed =
  match aget s.pkrel a with
  | Some _ ->
    (match aget s.sinfo a with
     | Some si ->
       let w = s.pp.p_window in
       if Z.leb w Z0
       then None
       else let index = Z.rem si.si_offset w in
            let previous =
              match aget s.missed (missed_key a index) with
              | Some b -> b
              | None -> false
            in
            let missd = negb signed in
            if (&&) (negb previous) missd
            then let mi = aset s.missed (missed_key a index) true in
                 let ctr = Z.add si.si_missed (Zpos XH) in
                 let si1 = { si_start = si.si_start; si_offset =
                   (Z.add si.si_offset (Zpos XH)); si_jailed_until =
                   si.si_jailed_until; si_tomb = si.si_tomb; si_missed = ctr }
                 in
                 let s1 = set_sign s s.sinfo mi in
                 let min_height = Z.add si.si_start w in
                 let max_missed = Z.sub w (min_signed_per_window s.pp) in
                 if (&&) (Z.ltb min_height s.height) (Z.ltb max_missed ctr)
                 then (match get_val s1 a with
                       | Some v ->
                         if v.v_jailed
                         then Some
                                (set_sign s1 (aset s1.sinfo a si1) s1.missed)
                         else let s2 =
                                match slash s1 a
                                        (Z.sub s.height (Zpos (XO XH))) power
                                        s.pp.p_slash_dt with
                                | SOk x -> Some x
                                | SErr x -> Some x
                                | SPanic -> None
                              in
                              (match s2 with
                               | Some s3 ->
                                 (match jail s3 a with
                                  | Some s4 ->
                                    let si2 = { si_start = si.si_start;
                                      si_offset = Z0; si_jailed_until =
                                      (Z.add s.btime s.pp.p_downtime_jail);
                                      si_tomb = si.si_tomb; si_missed = Z0 }
                                    in
                                    let mi2 =
                                      filter (fun p0 ->
                                        negb
                                          ((&&) (has_prefix a (fst p0))
                                            (Nat.eqb (length (fst p0))
                                              (add (length a) (S (S (S (S (S
                                                (S (S (S O))))))))))))
                                        s4.missed
                                    in
                                    Some
                                    (set_sign s4 (aset s4.sinfo a si2) mi2)
                                  | None -> None)
                               | None -> None)
                       | None ->
                         Some (set_sign s1 (aset s1.sinfo a si1) s1.missed))
                 else Some (set_sign s1 (aset s1.sinfo a si1) s1.missed)
            else if (&&) previous (negb missd)
                 then let mi = aset s.missed (missed_key a index) false in
                      let ctr = Z.sub si.si_missed (Zpos XH) in
                      let si1 = { si_start = si.si_start; si_offset =
                        (Z.add si.si_offset (Zpos XH)); si_jailed_until =
                        si.si_jailed_until; si_tomb = si.si_tomb; si_missed =
                        ctr }
                      in
                      let s1 = set_sign s s.sinfo mi in
                      let min_height = Z.add si.si_start w in
                      let max_missed = Z.sub w (min_signed_per_window s.pp) in
                      if (&&) (Z.ltb min_height s.height)
                           (Z.ltb max_missed ctr)
                      then (match get_val s1 a with
                            | Some v ->
                              if v.v_jailed
                              then Some
                                     (set_sign s1 (aset s1.sinfo a si1)
                                       s1.missed)
                              else let s2 =
                                     match slash s1 a
                                             (Z.sub s.height (Zpos (XO XH)))
                                             power s.pp.p_slash_dt with
                                     | SOk x -> Some x
                                     | SErr x -> Some x
                                     | SPanic -> None
                                   in
                                   (match s2 with
                                    | Some s3 ->
                                      (match jail s3 a with
                                       | Some s4 ->
                                         let si2 = { si_start = si.si_start;
                                           si_offset = Z0; si_jailed_until =
                                           (Z.add s.btime
                                             s.pp.p_downtime_jail); si_tomb =
                                           si.si_tomb; si_missed = Z0 }
                                         in
                                         let mi2 =
                                           filter (fun p0 ->
                                             negb
                                               ((&&) (has_prefix a (fst p0))
                                                 (Nat.eqb (length (fst p0))
                                                   (add (length a) (S (S (S
                                                     (S (S (S (S (S O))))))))))))
                                             s4.missed
                                         in
                                         Some
                                         (set_sign s4 (aset s4.sinfo a si2)
                                           mi2)
                                       | None -> None)
                                    | None -> None)
                            | None ->
                              Some
                                (set_sign s1 (aset s1.sinfo a si1) s1.missed))
                      else Some (set_sign s1 (aset s1.sinfo a si1) s1.missed)
                 else let mi = s.missed in
                      let ctr = si.si_missed in
                      let si1 = { si_start = si.si_start; si_offset =
                        (Z.add si.si_offset (Zpos XH)); si_jailed_until =
                        si.si_jailed_until; si_tomb = si.si_tomb; si_missed =
                        ctr }
                      in
                      let s1 = set_sign s s.sinfo mi in
                      let min_height = Z.add si.si_start w in
                      let max_missed = Z.sub w (min_signed_per_window s.pp) in
                      if (&&) (Z.ltb min_height s.height)
                           (Z.ltb max_missed ctr)
                      then (match get_val s1 a with
                            | Some v ->
                              if v.v_jailed
                              then Some
                                     (set_sign s1 (aset s1.sinfo a si1)
                                       s1.missed)
                              else let s2 =
                                     match slash s1 a
                                             (Z.sub s.height (Zpos (XO XH)))
                                             power s.pp.p_slash_dt with
                                     | SOk x -> Some x
                                     | SErr x -> Some x
                                     | SPanic -> None
                                   in
                                   (match s2 with
                                    | Some s3 ->
                                      (match jail s3 a with
                                       | Some s4 ->
                                         let si2 = { si_start = si.si_start;
                                           si_offset = Z0; si_jailed_until =
                                           (Z.add s.btime
                                             s.pp.p_downtime_jail); si_tomb =
                                           si.si_tomb; si_missed = Z0 }
                                         in
                                         let mi2 =
                                           filter (fun p0 ->
                                             negb
                                               ((&&) (has_prefix a (fst p0))
                                                 (Nat.eqb (length (fst p0))
                                                   (add (length a) (S (S (S
                                                     (S (S (S (S (S O))))))))))))
                                             s4.missed
                                         in
                                         Some
                                         (set_sign s4 (aset s4.sinfo a si2)
                                           mi2)
                                       | None -> None)
                                    | None -> None)
                            | None ->
                              Some
                                (set_sign s1 (aset s1.sinfo a si1) s1.missed))
                      else Some (set_sign s1 (aset s1.sinfo a si1) s1.missed)
     | None -> None)
  | None -> None

(** val double_sign_jail_end : z **)

let double_sign_jail_end =
  Z.mul (Zpos (XI (XI (XI (XI (XI (XI (XI (XO (XI (XO (XO (XO (XO (XO (XI (XO
    (XO (XO (XI (XO (XI (XI (XI (XI (XI (XI (XI (XI (XI (XI (XI (XI (XO (XI
    (XO (XI (XI XH)))))))))))))))))))))))))))))))))))))) (Zpos (XO (XO (XO
    (XO (XO (XO (XO (XO (XO (XI (XO (XI (XO (XO (XI (XI (XO (XI (XO (XI (XI
    (XO (XO (XI (XI (XI (XO (XI (XI XH))))))))))))))))))))))))))))))

(** val handle_double_sign : state -> bytes -> z -> z -> z -> state option **)

let handle_double_sign s a inf_h ev_time0 power =
  match aget s.pkrel a with
  | Some _ ->
    if Z.ltb s.pp.p_max_evidence_age (Z.sub s.btime ev_time0)
    then None
    else (match get_val s a with
          | Some v ->
            if N.eqb v.v_status N0
            then None
            else (match aget s.sinfo a with
                  | Some si ->
                    if si.si_tomb
                    then None
                    else let s1o =
                           match slash s a (Z.sub inf_h (Zpos XH)) power
                                   s.pp.p_slash_ds with
                           | SOk x -> Some x
                           | SErr x -> Some x
                           | SPanic -> None
                         in
                         (match s1o with
                          | Some s1 ->
                            let s2o =
                              if v.v_jailed then Some s1 else jail s1 a
                            in
                            (match s2o with
                             | Some s2 ->
                               (match get_val s2 a with
                                | Some v2 ->
                                  (match force_unstake s2 a v2 with
                                   | Some s3 ->
                                     let si1 = { si_start = si.si_start;
                                       si_offset = si.si_offset;
                                       si_jailed_until =
                                       double_sign_jail_end; si_tomb = true;
                                       si_missed = si.si_missed }
                                     in
                                     Some
                                     (set_sign s3 (aset s3.sinfo a si1)
                                       s3.missed)
                                   | None -> None)
                                | None -> None)
                             | None -> None)
                          | None -> None)
                  | None -> None)
          | None -> None)
  | None -> None

(** val reward_from_fees : state -> bytes -> state option **)

let reward_from_fees s prev =
  let fees = bal s s.ma.m_fee in
  (match bank_send s s.ma.m_fee s.ma.m_pos fees with
   | Some s1 ->
     (match get_val s1 prev with
      | Some _ -> bank_send s1 s1.ma.m_pos prev fees
      | None -> Some s1)
   | None -> None)

(** val mint_award : state -> bytes -> z -> state **)

let mint_award s a amt =
  match bank_mint s s.ma.m_pool amt with
  | Some s1 ->
    (match bank_send s1 s1.ma.m_pool a amt with
     | Some s2 -> s2
     | None -> s1)
  | None -> s

(** val mint_awards : state -> state **)

let mint_awards s =
  let s1 = fold_left (fun st p0 -> mint_award st (fst p0) (snd p0)) s.awards s
  in
  set_queues s1 [] s1.burns

(** val burn_validators_loop : (bytes * z) list -> state -> state option **)

let rec burn_validators_loop l s =
  match l with
  | [] -> Some s
  | p0 :: r ->
    let (a, sev) = p0 in
    (match get_val s a with
     | Some v ->
       let power =
         if N.eqb v.v_status (Npos (XO XH)) then power_of v.v_tokens else Z0
       in
       (match slash s a s.height power sev with
        | SOk s1 ->
          burn_validators_loop r (set_queues s1 s1.awards (adel s1.burns a))
        | SErr s1 ->
          burn_validators_loop r (set_queues s1 s1.awards (adel s1.burns a))
        | SPanic -> None)
     | None -> None)

type vote = { vo_addr : bytes; vo_power : z; vo_signed : bool }

type evid = { ev_addr : bytes; ev_height : z; ev_time : z; ev_power : z }

(** val fold_opt :
    (state -> 'a1 -> state option) -> 'a1 list -> state -> state option **)

let rec fold_opt f l s =
  match l with
  | [] -> Some s
  | x :: r -> (match f s x with
               | Some s1 -> fold_opt f r s1
               | None -> None)

(** val begin_block :
    state -> z -> z -> bytes -> vote list -> evid list -> state option **)

let begin_block s0 h t prop votes evs =
  let s = set_block s0 h t in
  let s1o =
    if Z.ltb (Zpos XH) h
    then (match s.proposer with
          | Some p0 -> reward_from_fees s p0
          | None -> None)
    else Some s
  in
  (match s1o with
   | Some s1 ->
     let s2 = mint_awards s1 in
     (match burn_validators_loop s2.burns s2 with
      | Some s3 ->
        let s4 = set_misc s3 (Some prop) s3.pkrel in
        (match fold_opt (fun st v ->
                 handle_signature st v.vo_addr v.vo_power v.vo_signed) votes
                 s4 with
         | Some s5 ->
           fold_opt (fun st e ->
             handle_double_sign st e.ev_addr e.ev_height e.ev_time e.ev_power)
             evs s5
         | None -> None)
      | None -> None)
   | None -> None)

type update = bytes * z

(** val upd_loop :
    (bytes * bytes) list -> nat -> state -> z amap -> z -> update list ->
    (((state * z amap) * z) * update list) option **)

let rec upd_loop idx n0 s prev total acc =
  match n0 with
  | O -> Some (((s, prev), total), acc)
  | S n' ->
    (match idx with
     | [] -> Some (((s, prev), total), acc)
     | p0 :: r ->
       let (_, a) = p0 in
       (match get_val s a with
        | Some v ->
          if v.v_jailed
          then None
          else if Z.eqb (power_of v.v_tokens) Z0
               then None
               else let cur =
                      if N.eqb v.v_status (Npos (XO XH))
                      then power_of v.v_tokens
                      else Z0
                    in
                    (match aget prev a with
                     | Some p1 ->
                       if Z.eqb p1 cur
                       then upd_loop r n' s (adel prev a) (Z.add total cur)
                              acc
                       else let s1 =
                              set_prev s (aset s.prevpow a cur) s.prevtotal
                            in
                            let acc1 = (a, cur) :: acc in
                            upd_loop r n' s1 (adel prev a) (Z.add total cur)
                              acc1
                     | None ->
                       let s1 = set_prev s (aset s.prevpow a cur) s.prevtotal
                       in
                       let acc1 = (a, cur) :: acc in
                       upd_loop r n' s1 (adel prev a) (Z.add total cur) acc1)
        | None -> None))

(** val update_tm_validators : state -> (state * update list) option **)

let update_tm_validators s =
  let idx = rev s.powidx in
  (match upd_loop idx (Z.to_nat s.pp.p_max_validators) s s.prevpow Z0 [] with
   | Some p0 ->
     let (p1, acc) = p0 in
     let (p2, total) = p1 in
     let (s1, leftover) = p2 in
     (match fold_opt (fun st p3 ->
              match get_val st (fst p3) with
              | Some _ ->
                Some (set_prev st (adel st.prevpow (fst p3)) st.prevtotal)
              | None -> None) leftover s1 with
      | Some s2 ->
        let ups = app (rev acc) (map (fun p3 -> ((fst p3), Z0)) leftover) in
        Some
        ((match ups with
          | [] -> s2
          | _ :: _ -> set_prev s2 s2.prevpow total), ups)
      | None -> None)
   | None -> None)

(** val finish_unstaking : state -> bytes -> validator -> state option **)

let finish_unstaking s a v =
  let s1 = del_unstaking s a v in
  if negb (is_int64 v.v_tokens)
  then None
  else (match bank_send s1 s1.ma.m_pool a v.v_tokens with
        | Some s2 -> Some (set_vals s2 (adel s2.vals a))
        | None -> None)

(** val unstake_one : state -> bytes -> state option **)

let unstake_one s a =
  match get_val s a with
  | Some v ->
    if negb (N.eqb v.v_status (Npos XH))
    then Some s
    else finish_unstaking s a v
  | None -> Some s

(** val unstake_mature : state -> state option **)

let unstake_mature s =
  let mature = filter (fun p0 -> bleb (fst p0) (time_key s.btime)) s.unstq in
  fold_opt (fun st p0 ->
    match fold_opt unstake_one (snd p0) st with
    | Some st1 -> Some (set_unstq st1 (adel st1.unstq (fst p0)))
    | None -> None) mature s

(** val end_block : state -> (state * update list) option **)

let end_block s =
  match update_tm_validators s with
  | Some p0 ->
    let (s1, ups) = p0 in
    (match unstake_mature s1 with
     | Some s2 -> Some (s2, ups)
     | None -> None)
  | None -> None

type pval =
| PVpos of n * z
| PVauth of n * z
| PVaddr of bytes
| PVacl of (bytes * bytes) list
| PVfees of z * (bytes * z) list
| PVraw

type msg =
| MStake of bytes * bytes * z
| MUnstake of bytes
| MUnjail of bytes
| MSend of bytes * bytes * z
| MChangeParam of bytes * bytes * pval * bytes * bool
| MDao of bytes * bytes * z * n
| MUpgrade of bytes * z * bytes

(** val msg_signer : msg -> bytes **)

let msg_signer = function
| MStake (_, a, _) -> a
| MUnstake a -> a
| MUnjail a -> a
| MSend (f, _, _) -> f
| MChangeParam (f, _, _, _, _) -> f
| MDao (f, _, _, _) -> f
| MUpgrade (f, _, _) -> f

(** val msg_type : msg -> n **)

let msg_type = function
| MStake (_, _, _) -> N0
| MUnstake _ -> Npos XH
| MUnjail _ -> Npos (XO XH)
| MSend (_, _, _) -> Npos (XI XH)
| MChangeParam (_, _, _, _, _) -> Npos (XO (XO XH))
| MDao (_, _, _, _) -> Npos (XI (XO XH))
| MUpgrade (_, _, _) -> Npos (XO (XI XH))

(** val msg_base_fee : z -> msg -> z **)

let msg_base_fee gov_fee = function
| MChangeParam (_, _, _, _, _) -> gov_fee
| MDao (_, _, _, _) -> gov_fee
| MUpgrade (_, _, _) -> gov_fee
| _ -> Z0

(** val msg_basic_ok : msg -> bool **)

let msg_basic_ok = function
| MStake (pk, _, amt) ->
  (&&) (negb (match pk with
              | [] -> true
              | _ :: _ -> false)) (Z.ltb Z0 amt)
| MUnstake a -> negb (match a with
                      | [] -> true
                      | _ :: _ -> false)
| MUnjail a -> negb (match a with
                     | [] -> true
                     | _ :: _ -> false)
| MSend (f, t, amt) ->
  (&&)
    ((&&) (negb (match f with
                 | [] -> true
                 | _ :: _ -> false))
      (negb (match t with
             | [] -> true
             | _ :: _ -> false))) (Z.ltb Z0 amt)
| MChangeParam (_, k, _, _, _) ->
  negb (match k with
        | [] -> true
        | _ :: _ -> false)
| MDao (_, t, amt, act) ->
  (&&)
    ((&&) ((&&) (is_int64 amt) (negb (Z.eqb amt Z0)))
      ((||) (N.eqb act (Npos XH)) (N.eqb act (Npos (XO XH)))))
    (negb
      ((&&) (N.eqb act (Npos XH)) (match t with
                                   | [] -> true
                                   | _ :: _ -> false)))
| MUpgrade (_, h, _) -> negb (Z.eqb h Z0)

type hres =
| HOk of state
| HErr of state

(** val owner_of : (bytes * bytes) list -> bytes -> bytes **)

let owner_of l k =
  match find (fun p0 -> beqb (fst p0) k) l with
  | Some p0 -> snd p0
  | None -> []

(** val apply_param : state -> bytes -> pval -> bytes -> state **)

let apply_param s key v raw =
  let raw' = aset s.params_raw key raw in
  (match v with
   | PVpos (f, z0) ->
     let p0 = s.pp in
     let g = fun i old -> if N.eqb f i then z0 else old in
     let p' = { p_unstaking_time = (g N0 p0.p_unstaking_time);
       p_max_validators = (g (Npos XH) p0.p_max_validators); p_min_stake =
       (g (Npos (XO XH)) p0.p_min_stake); p_max_evidence_age =
       (g (Npos (XI XH)) p0.p_max_evidence_age); p_window =
       (g (Npos (XO (XO XH))) p0.p_window); p_min_signed =
       (g (Npos (XI (XO XH))) p0.p_min_signed); p_downtime_jail =
       (g (Npos (XO (XI XH))) p0.p_downtime_jail); p_slash_ds =
       (g (Npos (XI (XI XH))) p0.p_slash_ds); p_slash_dt =
       (g (Npos (XO (XO (XO XH)))) p0.p_slash_dt) }
     in
     set_params s p' s.ap s.acl s.dao_owner raw'
   | PVauth (f, z0) ->
     let a = s.ap in
     let a' =
       if N.eqb f N0
       then { a_max_memo = z0; a_sig_limit = a.a_sig_limit; a_fee_default =
              a.a_fee_default; a_fee_multis = a.a_fee_multis }
       else { a_max_memo = a.a_max_memo; a_sig_limit = z0; a_fee_default =
              a.a_fee_default; a_fee_multis = a.a_fee_multis }
     in
     set_params s s.pp a' s.acl s.dao_owner raw'
   | PVaddr a -> set_params s s.pp s.ap s.acl a raw'
   | PVacl l -> set_params s s.pp s.ap l s.dao_owner raw'
   | PVfees (d, l) ->
     set_params s s.pp { a_max_memo = s.ap.a_max_memo; a_sig_limit =
       s.ap.a_sig_limit; a_fee_default = d; a_fee_multis = l } s.acl
       s.dao_owner raw'
   | PVraw -> set_params s s.pp s.ap s.acl s.dao_owner raw')

(** val handle : state -> msg -> hres **)

let handle s = function
| MStake (pk, a, amt) ->
  let v0 =
    match get_val s a with
    | Some v -> v
    | None ->
      { v_pk = pk; v_jailed = false; v_status = N0; v_tokens = Z0;
        v_unstime = Z0 }
  in
  if negb (N.eqb v0.v_status N0)
  then HErr s
  else if match aget s.sinfo a with
          | Some si -> si.si_tomb
          | None -> false
       then HErr s
       else if Z.ltb amt s.pp.p_min_stake
            then HErr s
            else if Z.ltb (bal s a) amt
                 then HErr s
                 else let s1 =
                        match get_val s a with
                        | Some _ -> s
                        | None ->
                          set_misc (put_val s a v0) s.proposer
                            (aset s.pkrel a pk)
                      in
                      (match bank_send s1 a s1.ma.m_pool amt with
                       | Some s2 ->
                         let v1 =
                           with_status
                             (with_tokens v0 (Z.add v0.v_tokens amt)) (Npos
                             (XO XH))
                         in
                         let s3 = set_staked (put_val s2 a v1) a v1 in
                         let s4 =
                           match aget s3.sinfo a with
                           | Some _ -> s3
                           | None ->
                             set_sign s3
                               (aset s3.sinfo a { si_start = s3.height;
                                 si_offset = Z0; si_jailed_until = Z0;
                                 si_tomb = false; si_missed = Z0 }) s3.missed
                         in
                         HOk s4
                       | None -> HErr s1)
| MUnstake a ->
  (match get_val s a with
   | Some v ->
     if negb (N.eqb v.v_status (Npos (XO XH)))
     then HErr s
     else if Z.ltb v.v_tokens s.pp.p_min_stake
          then HErr s
          else let s1 = del_staked s a v in
               let t = Z.add s.btime s.pp.p_unstaking_time in
               let v1 = with_unstime (with_status v (Npos XH)) t in
               let s2 = put_val s1 a v1 in
               let q =
                 match aget s2.unstq (time_key t) with
                 | Some l -> l
                 | None -> []
               in
               HOk
               (set_unstq s2 (aset s2.unstq (time_key t) (app q (a :: []))))
   | None -> HErr s)
| MUnjail a ->
  (match get_val s a with
   | Some v ->
     if Z.ltb v.v_tokens s.pp.p_min_stake
     then HErr s
     else if negb v.v_jailed
          then HErr s
          else (match aget s.sinfo a with
                | Some si ->
                  if si.si_tomb
                  then HErr s
                  else if Z.ltb s.btime si.si_jailed_until
                       then HErr s
                       else (match unjail s a with
                             | Some s1 -> HOk s1
                             | None -> HErr s)
                | None -> HErr s)
   | None -> HErr s)
| MSend (f, t, amt) ->
  (match bank_send s f t amt with
   | Some s1 -> HOk s1
   | None -> HErr s)
| MChangeParam (f, key, v, raw, wf) ->
  if negb (beqb (owner_of s.acl key) f)
  then HErr s
  else if wf then HOk (apply_param s key v raw) else HOk s
| MDao (f, t, amt, act) ->
  if negb (beqb s.dao_owner f)
  then HErr s
  else if N.eqb act (Npos XH)
       then (match bank_send s s.ma.m_dao t amt with
             | Some s1 -> HOk s1
             | None -> HErr s)
       else if N.eqb act (Npos (XO XH))
            then (match bank_burn s s.ma.m_dao amt with
                  | Some s1 -> HOk s1
                  | None -> HErr s)
            else HErr s
| MUpgrade (f, _, raw) ->
  if negb
       (beqb
         (owner_of s.acl ((Npos (XI (XI (XI (XO (XO (XI XH))))))) :: ((Npos
           (XI (XI (XI (XI (XO (XI XH))))))) :: ((Npos (XO (XI (XI (XO (XI
           (XI XH))))))) :: ((Npos (XI (XI (XI (XI (XO XH)))))) :: ((Npos (XI
           (XO (XI (XO (XI (XI XH))))))) :: ((Npos (XO (XO (XO (XO (XI (XI
           XH))))))) :: ((Npos (XI (XI (XI (XO (XO (XI XH))))))) :: ((Npos
           (XO (XI (XO (XO (XI (XI XH))))))) :: ((Npos (XI (XO (XO (XO (XO
           (XI XH))))))) :: ((Npos (XO (XO (XI (XO (XO (XI
           XH))))))) :: ((Npos (XI (XO (XI (XO (XO (XI
           XH))))))) :: [])))))))))))) f)
  then HErr s
  else HOk
         (apply_param s ((Npos (XI (XI (XI (XO (XO (XI XH))))))) :: ((Npos
           (XI (XI (XI (XI (XO (XI XH))))))) :: ((Npos (XO (XI (XI (XO (XI
           (XI XH))))))) :: ((Npos (XI (XI (XI (XI (XO XH)))))) :: ((Npos (XI
           (XO (XI (XO (XI (XI XH))))))) :: ((Npos (XO (XO (XO (XO (XI (XI
           XH))))))) :: ((Npos (XI (XI (XI (XO (XO (XI XH))))))) :: ((Npos
           (XO (XI (XO (XO (XI (XI XH))))))) :: ((Npos (XI (XO (XO (XO (XO
           (XI XH))))))) :: ((Npos (XO (XO (XI (XO (XO (XI
           XH))))))) :: ((Npos (XI (XO (XI (XO (XO (XI
           XH))))))) :: []))))))))))) PVraw raw)

type tx = { t_msg : msg; t_fee : z; t_memo_len : z;
            t_attached : bytes option; t_multi_count : z;
            t_signed_by : bytes; t_mutated : bool; t_sig_empty : bool;
            t_in_index : bool; t_gov_fee : z }

(** val required_fee : state -> z -> msg -> z **)

let required_fee s gov_fee m =
  let base = msg_base_fee gov_fee m in
  let ty = msg_type m in
  (match find (fun p0 -> beqb (fst p0) (ty :: [])) s.ap.a_fee_multis with
   | Some p0 -> Z.mul base (snd p0)
   | None -> Z.mul base s.ap.a_fee_default)

type dres0 =
| DOk of state
| DRejected of state
| DHandlerErr of state

(** val ante : state -> tx -> state option **)

let ante s t =
  if Z.ltb s.ap.a_max_memo t.t_memo_len
  then None
  else (match match t.t_attached with
              | Some ka -> Some ka
              | None -> aget s.haspk (msg_signer t.t_msg) with
        | Some ka ->
          if negb (beqb ka (msg_signer t.t_msg))
          then None
          else if t.t_in_index
               then None
               else if Z.ltb t.t_fee (required_fee s t.t_gov_fee t.t_msg)
                    then None
                    else if (&&) (Z.ltb Z0 t.t_multi_count)
                              (Z.ltb s.ap.a_sig_limit t.t_multi_count)
                         then None
                         else if (||) (negb (beqb t.t_signed_by ka))
                                   t.t_mutated
                              then None
                              else (match aget s.accts (msg_signer t.t_msg) with
                                    | Some b ->
                                      if Z.ltb b t.t_fee
                                      then None
                                      else bank_send s (msg_signer t.t_msg)
                                             s.ma.m_fee t.t_fee
                                    | None -> None)
        | None -> None)

(** val deliver_tx : state -> tx -> dres0 **)

let deliver_tx s t =
  if (||) ((||) (negb (msg_basic_ok t.t_msg)) (Z.ltb t.t_fee Z0))
       t.t_sig_empty
  then DRejected s
  else (match ante s t with
        | Some s1 ->
          (match handle s1 t.t_msg with
           | HOk s2 -> DOk s2
           | HErr s2 -> DHandlerErr s2)
        | None -> DRejected s)

(** val k_award : state -> bytes -> z -> state **)

let k_award s a amt =
  let cur = match aget s.awards a with
            | Some x -> x
            | None -> Z0 in
  set_queues s (aset s.awards a (Z.add cur amt)) s.burns

(** val k_burn : state -> bytes -> z -> state **)

let k_burn s a sev =
  let cur = match aget s.burns a with
            | Some x -> x
            | None -> Z0 in
  set_queues s s.awards (aset s.burns a (Z.add cur sev))

(** val genesis_validator : state -> ((bytes * bytes) * z) -> state **)

let genesis_validator s = function
| (p0, tokens) ->
  let (a, pk) = p0 in
  let v = { v_pk = pk; v_jailed = false; v_status = (Npos (XO XH));
    v_tokens = tokens; v_unstime = Z0 }
  in
  let s1 = set_staked (put_val s a v) a v in
  let s2 =
    set_sign s1
      (aset s1.sinfo a { si_start = Z0; si_offset = Z0; si_jailed_until = Z0;
        si_tomb = false; si_missed = Z0 }) s1.missed
  in
  set_misc s2 s2.proposer (aset s2.pkrel a pk)

(** val init_chain :
    state -> ((bytes * bytes) * z) list -> z -> (state * update list) option **)

let init_chain s0 gvals dao_tokens =
  let s1 = fold_left genesis_validator gvals s0 in
  (match update_tm_validators s1 with
   | Some p0 ->
     let (s2, ups) = p0 in
     (match bank_mint s2 s2.ma.m_dao dao_tokens with
      | Some s3 -> Some (s3, ups)
      | None -> Some (s2, ups))
   | None -> None)

(** val ed25519_key : bytes -> bool **)

let ed25519_key pk =
  Nat.eqb (length pk) (S (S (S (S (S (S (S (S (S (S (S (S (S (S (S (S (S (S
    (S (S (S (S (S (S (S (S (S (S (S (S (S (S
    O))))))))))))))))))))))))))))))))

(** val refused_key : bool -> state -> msg -> bool **)

let refused_key only_ed25519 s = function
| MStake (pk, a, _) ->
  (&&) ((&&) only_ed25519 (negb (ed25519_key pk)))
    (match get_val s a with
     | Some _ -> false
     | None -> true)
| _ -> false

(** val deliver_tx_cp : bool -> state -> tx -> dres0 **)

let deliver_tx_cp only_ed25519 s t =
  if (||) ((||) (negb (msg_basic_ok t.t_msg)) (Z.ltb t.t_fee Z0))
       t.t_sig_empty
  then DRejected s
  else (match ante s t with
        | Some s1 ->
          if refused_key only_ed25519 s1 t.t_msg
          then DHandlerErr s1
          else (match handle s1 t.t_msg with
                | HOk s2 -> DOk s2
                | HErr s2 -> DHandlerErr s2)
        | None -> DRejected s)

(** val uvarint_enc : nat -> z -> bytes **)

let rec uvarint_enc fuel z0 =
  match fuel with
  | O -> []
  | S f ->
    if Z.ltb z0 (Zpos (XO (XO (XO (XO (XO (XO (XO XH))))))))
    then (Z.to_N z0) :: []
    else (Z.to_N
           (Z.add (Z.modulo z0 (Zpos (XO (XO (XO (XO (XO (XO (XO XH)))))))))
             (Zpos (XO (XO (XO (XO (XO (XO (XO XH)))))))))) :: (uvarint_enc f
                                                                 (Z.div z0
                                                                   (Zpos (XO
                                                                   (XO (XO
                                                                   (XO (XO
                                                                   (XO (XO
                                                                   XH))))))))))

(** val uvarint : z -> bytes **)

let uvarint z0 =
  uvarint_enc (S (S (S (S (S (S (S (S (S (S O)))))))))) z0

(** val uvarint_dec : nat -> bytes -> z -> z -> z -> (z * bytes) option **)

let rec uvarint_dec fuel b i sh acc =
  match fuel with
  | O -> None
  | S f ->
    (match b with
     | [] -> None
     | x :: r ->
       if N.ltb x (Npos (XO (XO (XO (XO (XO (XO (XO XH))))))))
       then if (&&) (Z.eqb i (Zpos (XI (XO (XO XH))))) (N.ltb (Npos XH) x)
            then None
            else Some
                   ((Z.add acc (Z.mul (Z.of_N x) (Z.pow (Zpos (XO XH)) sh))),
                   r)
       else uvarint_dec f r (Z.add i (Zpos XH))
              (Z.add sh (Zpos (XI (XI XH))))
              (Z.add acc
                (Z.mul
                  (Z.sub (Z.of_N x) (Zpos (XO (XO (XO (XO (XO (XO (XO
                    XH))))))))) (Z.pow (Zpos (XO XH)) sh))))

(** val uvarint_decode : bytes -> (z * bytes) option **)

let uvarint_decode b =
  uvarint_dec (S (S (S (S (S (S (S (S (S (S O)))))))))) b Z0 Z0 Z0

(** val frame : bytes -> bytes **)

let frame bare =
  app (uvarint (Z.of_nat (length bare))) bare

(** val unframe : bytes -> (bytes * bytes) option **)

let unframe b =
  match uvarint_decode b with
  | Some p0 ->
    let (n0, r) = p0 in
    if Z.ltb (Z.of_nat (length r)) n0
    then None
    else Some ((firstn (Z.to_nat n0) r), (skipn (Z.to_nat n0) r))
  | None -> None

(** val digits : nat -> z -> bytes **)

let rec digits w z0 =
  match w with
  | O -> []
  | S w' ->
    app (digits w' (Z.div z0 (Zpos (XO (XI (XO XH))))))
      ((Z.to_N
         (Z.add (Zpos (XO (XO (XO (XO (XI XH))))))
           (Z.modulo z0 (Zpos (XO (XI (XO XH))))))) :: [])

type tfields = { t_year : z; t_month : z; t_day : z; t_hour : z; t_min : 
                 z; t_sec : z; t_nano : z }

(** val time_text : tfields -> bytes **)

let time_text t =
  app (digits (S (S (S (S O)))) t.t_year)
    (app ((Npos (XI (XO (XI (XI (XO XH)))))) :: [])
      (app (digits (S (S O)) t.t_month)
        (app ((Npos (XI (XO (XI (XI (XO XH)))))) :: [])
          (app (digits (S (S O)) t.t_day)
            (app ((Npos (XO (XO (XI (XO (XI (XO XH))))))) :: [])
              (app (digits (S (S O)) t.t_hour)
                (app ((Npos (XO (XI (XO (XI (XI XH)))))) :: [])
                  (app (digits (S (S O)) t.t_min)
                    (app ((Npos (XO (XI (XO (XI (XI XH)))))) :: [])
                      (app (digits (S (S O)) t.t_sec)
                        (app ((Npos (XO (XI (XI (XI (XO XH)))))) :: [])
                          (digits (S (S (S (S (S (S (S (S (S O)))))))))
                            t.t_nano))))))))))))

type json =
| JNull
| JBool of bool
| JStr of bytes
| JArr of json list
| JObj of (bytes * json) list

(** val canon : json -> json **)

let rec canon j = match j with
| JArr l -> JArr (map canon l)
| JObj l ->
  JObj
    (let rec go l0 acc =
       match l0 with
       | [] -> acc
       | p0 :: r -> let (k, v) = p0 in go r (aset acc k (canon v))
     in go l [])
| _ -> j

(** val hexd : z -> n **)

let hexd z0 =
  Z.to_N
    (if Z.ltb z0 (Zpos (XO (XI (XO XH))))
     then Z.add (Zpos (XO (XO (XO (XO (XI XH)))))) z0
     else Z.add (Zpos (XI (XI (XI (XO (XI (XO XH))))))) z0)

(** val esc : n -> bytes **)

let esc b =
  if N.eqb b (Npos (XO (XI (XO (XO (XO XH))))))
  then (Npos (XO (XO (XI (XI (XI (XO XH))))))) :: ((Npos (XO (XI (XO (XO (XO
         XH)))))) :: [])
  else if N.eqb b (Npos (XO (XO (XI (XI (XI (XO XH)))))))
       then (Npos (XO (XO (XI (XI (XI (XO XH))))))) :: ((Npos (XO (XO (XI (XI
              (XI (XO XH))))))) :: [])
       else if N.eqb b (Npos (XO (XI (XO XH))))
            then (Npos (XO (XO (XI (XI (XI (XO XH))))))) :: ((Npos (XO (XI
                   (XI (XI (XO (XI XH))))))) :: [])
            else if N.eqb b (Npos (XI (XO (XI XH))))
                 then (Npos (XO (XO (XI (XI (XI (XO XH))))))) :: ((Npos (XO
                        (XI (XO (XO (XI (XI XH))))))) :: [])
                 else if N.eqb b (Npos (XI (XO (XO XH))))
                      then (Npos (XO (XO (XI (XI (XI (XO XH))))))) :: ((Npos
                             (XO (XO (XI (XO (XI (XI XH))))))) :: [])
                      else if N.eqb b (Npos (XO (XO (XO XH))))
                           then (Npos (XO (XO (XI (XI (XI (XO
                                  XH))))))) :: ((Npos (XO (XI (XO (XO (XO (XI
                                  XH))))))) :: [])
                           else if N.eqb b (Npos (XO (XO (XI XH))))
                                then (Npos (XO (XO (XI (XI (XI (XO
                                       XH))))))) :: ((Npos (XO (XI (XI (XO
                                       (XO (XI XH))))))) :: [])
                                else if (||)
                                          ((||)
                                            ((||)
                                              (N.ltb b (Npos (XO (XO (XO (XO
                                                (XO XH)))))))
                                              (N.eqb b (Npos (XO (XO (XI (XI
                                                (XI XH))))))))
                                            (N.eqb b (Npos (XO (XI (XI (XI
                                              (XI XH))))))))
                                          (N.eqb b (Npos (XO (XI (XI (XO (XO
                                            XH)))))))
                                     then (Npos (XO (XO (XI (XI (XI (XO
                                            XH))))))) :: ((Npos (XI (XO (XI
                                            (XO (XI (XI XH))))))) :: ((Npos
                                            (XO (XO (XO (XO (XI
                                            XH)))))) :: ((Npos (XO (XO (XO
                                            (XO (XI
                                            XH)))))) :: ((hexd
                                                           (Z.div (Z.of_N b)
                                                             (Zpos (XO (XO
                                                             (XO (XO XH))))))) :: (
                                            (hexd
                                              (Z.modulo (Z.of_N b) (Zpos (XO
                                                (XO (XO (XO XH))))))) :: [])))))
                                     else b :: []

(** val quote : bytes -> bytes **)

let quote s =
  (Npos (XO (XI (XO (XO (XO
    XH)))))) :: (app (flat_map esc s) ((Npos (XO (XI (XO (XO (XO
                  XH)))))) :: []))

(** val render : json -> bytes **)

let rec render = function
| JNull ->
  (Npos (XO (XI (XI (XI (XO (XI XH))))))) :: ((Npos (XI (XO (XI (XO (XI (XI
    XH))))))) :: ((Npos (XO (XO (XI (XI (XO (XI XH))))))) :: ((Npos (XO (XO
    (XI (XI (XO (XI XH))))))) :: [])))
| JBool b ->
  if b
  then (Npos (XO (XO (XI (XO (XI (XI XH))))))) :: ((Npos (XO (XI (XO (XO (XI
         (XI XH))))))) :: ((Npos (XI (XO (XI (XO (XI (XI XH))))))) :: ((Npos
         (XI (XO (XI (XO (XO (XI XH))))))) :: [])))
  else (Npos (XO (XI (XI (XO (XO (XI XH))))))) :: ((Npos (XI (XO (XO (XO (XO
         (XI XH))))))) :: ((Npos (XO (XO (XI (XI (XO (XI XH))))))) :: ((Npos
         (XI (XI (XO (XO (XI (XI XH))))))) :: ((Npos (XI (XO (XI (XO (XO (XI
         XH))))))) :: []))))
| JStr s -> quote s
| JArr l ->
  (Npos (XI (XI (XO (XI (XI (XO
    XH))))))) :: (let rec elems = function
                  | [] -> (Npos (XI (XO (XI (XI (XI (XO XH))))))) :: []
                  | x :: r ->
                    app (render x)
                      (match r with
                       | [] -> (Npos (XI (XO (XI (XI (XI (XO XH))))))) :: []
                       | _ :: _ ->
                         (Npos (XO (XO (XI (XI (XO XH)))))) :: (elems r))
                  in elems l)
| JObj l ->
  (Npos (XI (XI (XO (XI (XI (XI
    XH))))))) :: (let rec fields = function
                  | [] -> (Npos (XI (XO (XI (XI (XI (XI XH))))))) :: []
                  | p0 :: r ->
                    let (k, v) = p0 in
                    app (quote k) ((Npos (XO (XI (XO (XI (XI
                      XH)))))) :: (app (render v)
                                    (match r with
                                     | [] ->
                                       (Npos (XI (XO (XI (XI (XI (XI
                                         XH))))))) :: []
                                     | _ :: _ ->
                                       (Npos (XO (XO (XI (XI (XO
                                         XH)))))) :: (fields r))))
                  in fields l)

(** val sort_json : json -> bytes **)

let sort_json j =
  render (canon j)

(** val sign_doc : bytes -> bytes -> bytes -> json -> json -> json **)

let sign_doc chain entropy memo fee msg0 =
  JObj ((((Npos (XI (XI (XO (XO (XO (XI XH))))))) :: ((Npos (XO (XO (XO (XI
    (XO (XI XH))))))) :: ((Npos (XI (XO (XO (XO (XO (XI XH))))))) :: ((Npos
    (XI (XO (XO (XI (XO (XI XH))))))) :: ((Npos (XO (XI (XI (XI (XO (XI
    XH))))))) :: ((Npos (XI (XI (XI (XI (XI (XO XH))))))) :: ((Npos (XI (XO
    (XO (XI (XO (XI XH))))))) :: ((Npos (XO (XO (XI (XO (XO (XI
    XH))))))) :: [])))))))), (JStr chain)) :: ((((Npos (XI (XO (XI (XO (XO
    (XI XH))))))) :: ((Npos (XO (XI (XI (XI (XO (XI XH))))))) :: ((Npos (XO
    (XO (XI (XO (XI (XI XH))))))) :: ((Npos (XO (XI (XO (XO (XI (XI
    XH))))))) :: ((Npos (XI (XI (XI (XI (XO (XI XH))))))) :: ((Npos (XO (XO
    (XO (XO (XI (XI XH))))))) :: ((Npos (XI (XO (XO (XI (XI (XI
    XH))))))) :: []))))))), (JStr entropy)) :: ((((Npos (XO (XI (XI (XO (XO
    (XI XH))))))) :: ((Npos (XI (XO (XI (XO (XO (XI XH))))))) :: ((Npos (XI
    (XO (XI (XO (XO (XI XH))))))) :: []))), fee) :: ((((Npos (XI (XO (XI (XI
    (XO (XI XH))))))) :: ((Npos (XI (XO (XI (XO (XO (XI XH))))))) :: ((Npos
    (XI (XO (XI (XI (XO (XI XH))))))) :: ((Npos (XI (XI (XI (XI (XO (XI
    XH))))))) :: [])))), (JStr memo)) :: ((((Npos (XI (XO (XI (XI (XO (XI
    XH))))))) :: ((Npos (XI (XI (XO (XO (XI (XI XH))))))) :: ((Npos (XI (XI
    (XI (XO (XO (XI XH))))))) :: []))), msg0) :: [])))))

(** val sign_bytes : bytes -> bytes -> bytes -> json -> json -> bytes **)

let sign_bytes chain entropy memo fee msg0 =
  sort_json (sign_doc chain entropy memo fee msg0)

(** val udigits : nat -> z -> bytes **)

let rec udigits fuel z0 =
  match fuel with
  | O ->
    (Z.to_N
      (Z.add (Zpos (XO (XO (XO (XO (XI XH))))))
        (Z.modulo z0 (Zpos (XO (XI (XO XH))))))) :: []
  | S f ->
    if Z.ltb z0 (Zpos (XO (XI (XO XH))))
    then (Z.to_N (Z.add (Zpos (XO (XO (XO (XO (XI XH)))))) z0)) :: []
    else app (udigits f (Z.div z0 (Zpos (XO (XI (XO XH))))))
           ((Z.to_N
              (Z.add (Zpos (XO (XO (XO (XO (XI XH))))))
                (Z.modulo z0 (Zpos (XO (XI (XO XH))))))) :: [])

(** val big_text : z -> bytes **)

let big_text z0 =
  udigits (Z.to_nat (Z.log2 z0)) z0

(** val zeros : nat -> bytes **)

let zeros n0 =
  repeat (Npos (XO (XO (XO (XO (XI XH)))))) n0

(** val dec_to_text : z -> bytes **)

let dec_to_text z0 =
  let ds = big_text (Z.abs z0) in
  let n0 = length ds in
  let body =
    if Nat.leb n0 (S (S (S (S (S (S (S (S (S (S (S (S (S (S (S (S (S (S
         O))))))))))))))))))
    then app ((Npos (XO (XO (XO (XO (XI XH)))))) :: ((Npos (XO (XI (XI (XI
           (XO XH)))))) :: []))
           (app
             (zeros
               (sub (S (S (S (S (S (S (S (S (S (S (S (S (S (S (S (S (S (S
                 O)))))))))))))))))) n0)) ds)
    else app
           (firstn
             (sub n0 (S (S (S (S (S (S (S (S (S (S (S (S (S (S (S (S (S (S
               O))))))))))))))))))) ds)
           (app ((Npos (XO (XI (XI (XI (XO XH)))))) :: [])
             (skipn
               (sub n0 (S (S (S (S (S (S (S (S (S (S (S (S (S (S (S (S (S (S
                 O))))))))))))))))))) ds))
  in
  if Z.ltb z0 Z0 then (Npos (XI (XO (XI (XI (XO XH)))))) :: body else body

(** val is_digit0 : n -> bool **)

let is_digit0 b =
  (&&) (N.leb (Npos (XO (XO (XO (XO (XI XH)))))) b)
    (N.leb b (Npos (XI (XO (XO (XI (XI XH)))))))

(** val dvalue : z -> bytes -> z option **)

let rec dvalue acc = function
| [] -> Some acc
| b :: r ->
  if is_digit0 b
  then dvalue
         (Z.add (Z.mul acc (Zpos (XO (XI (XO XH)))))
           (Z.sub (Z.of_N b) (Zpos (XO (XO (XO (XO (XI XH)))))))) r
  else None

(** val split_dot : bytes -> bytes -> bytes list **)

let rec split_dot cur = function
| [] -> (rev cur) :: []
| b :: r ->
  if N.eqb b (Npos (XO (XI (XI (XI (XO XH))))))
  then (rev cur) :: (split_dot [] r)
  else split_dot (b :: cur) r

(** val text_to_dec : bytes -> z option **)

let text_to_dec s = match s with
| [] -> None
| b0 :: r0 ->
  if N.eqb b0 (Npos (XI (XO (XI (XI (XO XH))))))
  then let neg = true in
       (match r0 with
        | [] -> None
        | _ :: _ ->
          let combined =
            match split_dot [] r0 with
            | [] -> None
            | i :: l ->
              (match l with
               | [] ->
                 Some
                   (app i
                     (zeros (S (S (S (S (S (S (S (S (S (S (S (S (S (S (S (S
                       (S (S O))))))))))))))))))))
               | f :: l0 ->
                 (match l0 with
                  | [] ->
                    if (||)
                         ((||) (Nat.eqb (length f) O) (Nat.eqb (length i) O))
                         (Nat.ltb (S (S (S (S (S (S (S (S (S (S (S (S (S (S
                           (S (S (S (S O)))))))))))))))))) (length f))
                    then None
                    else Some
                           (app i
                             (app f
                               (zeros
                                 (sub (S (S (S (S (S (S (S (S (S (S (S (S (S
                                   (S (S (S (S (S O))))))))))))))))))
                                   (length f)))))
                  | _ :: _ -> None))
          in
          (match combined with
           | Some c ->
             (match c with
              | [] -> None
              | _ :: _ ->
                (match dvalue Z0 c with
                 | Some v -> Some (if neg then Z.opp v else v)
                 | None -> None))
           | None -> None))
  else let neg = false in
       (match s with
        | [] -> None
        | _ :: _ ->
          let combined =
            match split_dot [] s with
            | [] -> None
            | i :: l ->
              (match l with
               | [] ->
                 Some
                   (app i
                     (zeros (S (S (S (S (S (S (S (S (S (S (S (S (S (S (S (S
                       (S (S O))))))))))))))))))))
               | f :: l0 ->
                 (match l0 with
                  | [] ->
                    if (||)
                         ((||) (Nat.eqb (length f) O) (Nat.eqb (length i) O))
                         (Nat.ltb (S (S (S (S (S (S (S (S (S (S (S (S (S (S
                           (S (S (S (S O)))))))))))))))))) (length f))
                    then None
                    else Some
                           (app i
                             (app f
                               (zeros
                                 (sub (S (S (S (S (S (S (S (S (S (S (S (S (S
                                   (S (S (S (S (S O))))))))))))))))))
                                   (length f)))))
                  | _ :: _ -> None))
          in
          (match combined with
           | Some c ->
             (match c with
              | [] -> None
              | _ :: _ ->
                (match dvalue Z0 c with
                 | Some v -> Some (if neg then Z.opp v else v)
                 | None -> None))
           | None -> None))
