
(** val negb : bool -> bool **)

let negb = function
| true -> false
| false -> true

type nat =
| O
| S of nat

(** val fst : ('a1 * 'a2) -> 'a1 **)

let fst = function
| (x, _) -> x

(** val snd : ('a1 * 'a2) -> 'a2 **)

let snd = function
| (_, y) -> y

(** val length : 'a1 list -> nat **)

let rec length = function
| [] -> O
| _ :: l' -> S (length l')

(** val app : 'a1 list -> 'a1 list -> 'a1 list **)

let rec app l m =
  match l with
  | [] -> m
  | a :: l1 -> a :: (app l1 m)

type comparison =
| Eq
| Lt
| Gt

(** val compOpp : comparison -> comparison **)

let compOpp = function
| Eq -> Eq
| Lt -> Gt
| Gt -> Lt

(** val add : nat -> nat -> nat **)

let rec add n0 m =
  match n0 with
  | O -> m
  | S p0 -> S (add p0 m)

module Nat =
 struct
  (** val eqb : nat -> nat -> bool **)

  let rec eqb n0 m =
    match n0 with
    | O -> (match m with
            | O -> true
            | S _ -> false)
    | S n' -> (match m with
               | O -> false
               | S m' -> eqb n' m')

  (** val leb : nat -> nat -> bool **)

  let rec leb n0 m =
    match n0 with
    | O -> true
    | S n' -> (match m with
               | O -> false
               | S m' -> leb n' m')

  (** val ltb : nat -> nat -> bool **)

  let ltb n0 m =
    leb (S n0) m

  (** val div2 : nat -> nat **)

  let rec div2 = function
  | O -> O
  | S n1 -> (match n1 with
             | O -> O
             | S n' -> S (div2 n'))
 end

(** val nth_error : 'a1 list -> nat -> 'a1 option **)

let rec nth_error l = function
| O -> (match l with
        | [] -> None
        | x :: _ -> Some x)
| S n1 -> (match l with
           | [] -> None
           | _ :: l0 -> nth_error l0 n1)

(** val rev : 'a1 list -> 'a1 list **)

let rec rev = function
| [] -> []
| x :: l' -> app (rev l') (x :: [])

(** val map : ('a1 -> 'a2) -> 'a1 list -> 'a2 list **)

let rec map f = function
| [] -> []
| a :: t -> (f a) :: (map f t)

(** val fold_right : ('a2 -> 'a1 -> 'a1) -> 'a1 -> 'a2 list -> 'a1 **)

let rec fold_right f a0 = function
| [] -> a0
| b :: t -> f b (fold_right f a0 t)

(** val existsb : ('a1 -> bool) -> 'a1 list -> bool **)

let rec existsb f = function
| [] -> false
| a :: l0 -> (||) (f a) (existsb f l0)

(** val forallb : ('a1 -> bool) -> 'a1 list -> bool **)

let rec forallb f = function
| [] -> true
| a :: l0 -> (&&) (f a) (forallb f l0)

(** val filter : ('a1 -> bool) -> 'a1 list -> 'a1 list **)

let rec filter f = function
| [] -> []
| x :: l0 -> if f x then x :: (filter f l0) else filter f l0

(** val firstn : nat -> 'a1 list -> 'a1 list **)

let rec firstn n0 l =
  match n0 with
  | O -> []
  | S n1 -> (match l with
             | [] -> []
             | a :: l0 -> a :: (firstn n1 l0))

(** val skipn : nat -> 'a1 list -> 'a1 list **)

let rec skipn n0 l =
  match n0 with
  | O -> l
  | S n1 -> (match l with
             | [] -> []
             | _ :: l0 -> skipn n1 l0)

type positive =
| XI of positive
| XO of positive
| XH

type n =
| N0
| Npos of positive

type z =
| Z0
| Zpos of positive
| Zneg of positive

module Pos =
 struct
  type mask =
  | IsNul
  | IsPos of positive
  | IsNeg
 end

module Coq_Pos =
 struct
  (** val succ : positive -> positive **)

  let rec succ = function
  | XI p0 -> XO (succ p0)
  | XO p0 -> XI p0
  | XH -> XO XH

  (** val add : positive -> positive -> positive **)

  let rec add x y =
    match x with
    | XI p0 ->
      (match y with
       | XI q -> XO (add_carry p0 q)
       | XO q -> XI (add p0 q)
       | XH -> XO (succ p0))
    | XO p0 ->
      (match y with
       | XI q -> XI (add p0 q)
       | XO q -> XO (add p0 q)
       | XH -> XI p0)
    | XH -> (match y with
             | XI q -> XO (succ q)
             | XO q -> XI q
             | XH -> XO XH)

  (** val add_carry : positive -> positive -> positive **)

  and add_carry x y =
    match x with
    | XI p0 ->
      (match y with
       | XI q -> XI (add_carry p0 q)
       | XO q -> XO (add_carry p0 q)
       | XH -> XI (succ p0))
    | XO p0 ->
      (match y with
       | XI q -> XO (add_carry p0 q)
       | XO q -> XI (add p0 q)
       | XH -> XO (succ p0))
    | XH ->
      (match y with
       | XI q -> XI (succ q)
       | XO q -> XO (succ q)
       | XH -> XI XH)

  (** val pred_double : positive -> positive **)

  let rec pred_double = function
  | XI p0 -> XI (XO p0)
  | XO p0 -> XI (pred_double p0)
  | XH -> XH

  type mask = Pos.mask =
  | IsNul
  | IsPos of positive
  | IsNeg

  (** val succ_double_mask : mask -> mask **)

  let succ_double_mask = function
  | IsNul -> IsPos XH
  | IsPos p0 -> IsPos (XI p0)
  | IsNeg -> IsNeg

  (** val double_mask : mask -> mask **)

  let double_mask = function
  | IsPos p0 -> IsPos (XO p0)
  | x0 -> x0

  (** val double_pred_mask : positive -> mask **)

  let double_pred_mask = function
  | XI p0 -> IsPos (XO (XO p0))
  | XO p0 -> IsPos (XO (pred_double p0))
  | XH -> IsNul

  (** val sub_mask : positive -> positive -> mask **)

  let rec sub_mask x y =
    match x with
    | XI p0 ->
      (match y with
       | XI q -> double_mask (sub_mask p0 q)
       | XO q -> succ_double_mask (sub_mask p0 q)
       | XH -> IsPos (XO p0))
    | XO p0 ->
      (match y with
       | XI q -> succ_double_mask (sub_mask_carry p0 q)
       | XO q -> double_mask (sub_mask p0 q)
       | XH -> IsPos (pred_double p0))
    | XH -> (match y with
             | XH -> IsNul
             | _ -> IsNeg)

  (** val sub_mask_carry : positive -> positive -> mask **)

  and sub_mask_carry x y =
    match x with
    | XI p0 ->
      (match y with
       | XI q -> succ_double_mask (sub_mask_carry p0 q)
       | XO q -> double_mask (sub_mask p0 q)
       | XH -> IsPos (pred_double p0))
    | XO p0 ->
      (match y with
       | XI q -> double_mask (sub_mask_carry p0 q)
       | XO q -> succ_double_mask (sub_mask_carry p0 q)
       | XH -> double_pred_mask p0)
    | XH -> IsNeg

  (** val mul : positive -> positive -> positive **)

  let rec mul x y =
    match x with
    | XI p0 -> add y (XO (mul p0 y))
    | XO p0 -> XO (mul p0 y)
    | XH -> y

  (** val iter : ('a1 -> 'a1) -> 'a1 -> positive -> 'a1 **)

  let rec iter f x = function
  | XI n' -> f (iter f (iter f x n') n')
  | XO n' -> iter f (iter f x n') n'
  | XH -> f x

  (** val size : positive -> positive **)

  let rec size = function
  | XI p1 -> succ (size p1)
  | XO p1 -> succ (size p1)
  | XH -> XH

  (** val compare_cont : comparison -> positive -> positive -> comparison **)

  let rec compare_cont r x y =
    match x with
    | XI p0 ->
      (match y with
       | XI q -> compare_cont r p0 q
       | XO q -> compare_cont Gt p0 q
       | XH -> Gt)
    | XO p0 ->
      (match y with
       | XI q -> compare_cont Lt p0 q
       | XO q -> compare_cont r p0 q
       | XH -> Gt)
    | XH -> (match y with
             | XH -> r
             | _ -> Lt)

  (** val compare : positive -> positive -> comparison **)

  let compare =
    compare_cont Eq

  (** val eqb : positive -> positive -> bool **)

  let rec eqb p0 q =
    match p0 with
    | XI p1 -> (match q with
                | XI q0 -> eqb p1 q0
                | _ -> false)
    | XO p1 -> (match q with
                | XO q0 -> eqb p1 q0
                | _ -> false)
    | XH -> (match q with
             | XH -> true
             | _ -> false)

  (** val of_succ_nat : nat -> positive **)

  let rec of_succ_nat = function
  | O -> XH
  | S x -> succ (of_succ_nat x)
 end

module N =
 struct
  (** val succ_double : n -> n **)

  let succ_double = function
  | N0 -> Npos XH
  | Npos p0 -> Npos (XI p0)

  (** val double : n -> n **)

  let double = function
  | N0 -> N0
  | Npos p0 -> Npos (XO p0)

  (** val add : n -> n -> n **)

  let add n0 m =
    match n0 with
    | N0 -> m
    | Npos p0 -> (match m with
                  | N0 -> n0
                  | Npos q -> Npos (Coq_Pos.add p0 q))

  (** val sub : n -> n -> n **)

  let sub n0 m =
    match n0 with
    | N0 -> N0
    | Npos n' ->
      (match m with
       | N0 -> n0
       | Npos m' ->
         (match Coq_Pos.sub_mask n' m' with
          | Coq_Pos.IsPos p0 -> Npos p0
          | _ -> N0))

  (** val mul : n -> n -> n **)

  let mul n0 m =
    match n0 with
    | N0 -> N0
    | Npos p0 -> (match m with
                  | N0 -> N0
                  | Npos q -> Npos (Coq_Pos.mul p0 q))

  (** val compare : n -> n -> comparison **)

  let compare n0 m =
    match n0 with
    | N0 -> (match m with
             | N0 -> Eq
             | Npos _ -> Lt)
    | Npos n' -> (match m with
                  | N0 -> Gt
                  | Npos m' -> Coq_Pos.compare n' m')

  (** val eqb : n -> n -> bool **)

  let eqb n0 m =
    match n0 with
    | N0 -> (match m with
             | N0 -> true
             | Npos _ -> false)
    | Npos p0 -> (match m with
                  | N0 -> false
                  | Npos q -> Coq_Pos.eqb p0 q)

  (** val leb : n -> n -> bool **)

  let leb x y =
    match compare x y with
    | Gt -> false
    | _ -> true

  (** val ltb : n -> n -> bool **)

  let ltb x y =
    match compare x y with
    | Lt -> true
    | _ -> false

  (** val pos_div_eucl : positive -> n -> n * n **)

  let rec pos_div_eucl a b =
    match a with
    | XI a' ->
      let (q, r) = pos_div_eucl a' b in
      let r' = succ_double r in
      if leb b r' then ((succ_double q), (sub r' b)) else ((double q), r')
    | XO a' ->
      let (q, r) = pos_div_eucl a' b in
      let r' = double r in
      if leb b r' then ((succ_double q), (sub r' b)) else ((double q), r')
    | XH ->
      (match b with
       | N0 -> (N0, (Npos XH))
       | Npos p0 ->
         (match p0 with
          | XH -> ((Npos XH), N0)
          | _ -> (N0, (Npos XH))))

  (** val div_eucl : n -> n -> n * n **)

  let div_eucl a b =
    match a with
    | N0 -> (N0, N0)
    | Npos na -> (match b with
                  | N0 -> (N0, a)
                  | Npos _ -> pos_div_eucl na b)

  (** val modulo : n -> n -> n **)

  let modulo a b =
    snd (div_eucl a b)

  (** val of_nat : nat -> n **)

  let of_nat = function
  | O -> N0
  | S n' -> Npos (Coq_Pos.of_succ_nat n')
 end

module Z =
 struct
  (** val double : z -> z **)

  let double = function
  | Z0 -> Z0
  | Zpos p0 -> Zpos (XO p0)
  | Zneg p0 -> Zneg (XO p0)

  (** val succ_double : z -> z **)

  let succ_double = function
  | Z0 -> Zpos XH
  | Zpos p0 -> Zpos (XI p0)
  | Zneg p0 -> Zneg (Coq_Pos.pred_double p0)

  (** val pred_double : z -> z **)

  let pred_double = function
  | Z0 -> Zneg XH
  | Zpos p0 -> Zpos (Coq_Pos.pred_double p0)
  | Zneg p0 -> Zneg (XI p0)

  (** val pos_sub : positive -> positive -> z **)

  let rec pos_sub x y =
    match x with
    | XI p0 ->
      (match y with
       | XI q -> double (pos_sub p0 q)
       | XO q -> succ_double (pos_sub p0 q)
       | XH -> Zpos (XO p0))
    | XO p0 ->
      (match y with
       | XI q -> pred_double (pos_sub p0 q)
       | XO q -> double (pos_sub p0 q)
       | XH -> Zpos (Coq_Pos.pred_double p0))
    | XH ->
      (match y with
       | XI q -> Zneg (XO q)
       | XO q -> Zneg (Coq_Pos.pred_double q)
       | XH -> Z0)

  (** val add : z -> z -> z **)

  let add x y =
    match x with
    | Z0 -> y
    | Zpos x' ->
      (match y with
       | Z0 -> x
       | Zpos y' -> Zpos (Coq_Pos.add x' y')
       | Zneg y' -> pos_sub x' y')
    | Zneg x' ->
      (match y with
       | Z0 -> x
       | Zpos y' -> pos_sub y' x'
       | Zneg y' -> Zneg (Coq_Pos.add x' y'))

  (** val opp : z -> z **)

  let opp = function
  | Z0 -> Z0
  | Zpos x0 -> Zneg x0
  | Zneg x0 -> Zpos x0

  (** val sub : z -> z -> z **)

  let sub m n0 =
    add m (opp n0)

  (** val mul : z -> z -> z **)

  let mul x y =
    match x with
    | Z0 -> Z0
    | Zpos x' ->
      (match y with
       | Z0 -> Z0
       | Zpos y' -> Zpos (Coq_Pos.mul x' y')
       | Zneg y' -> Zneg (Coq_Pos.mul x' y'))
    | Zneg x' ->
      (match y with
       | Z0 -> Z0
       | Zpos y' -> Zneg (Coq_Pos.mul x' y')
       | Zneg y' -> Zpos (Coq_Pos.mul x' y'))

  (** val pow_pos : z -> positive -> z **)

  let pow_pos z0 =
    Coq_Pos.iter (mul z0) (Zpos XH)

  (** val pow : z -> z -> z **)

  let pow x = function
  | Z0 -> Zpos XH
  | Zpos p0 -> pow_pos x p0
  | Zneg _ -> Z0

  (** val compare : z -> z -> comparison **)

  let compare x y =
    match x with
    | Z0 -> (match y with
             | Z0 -> Eq
             | Zpos _ -> Lt
             | Zneg _ -> Gt)
    | Zpos x' -> (match y with
                  | Zpos y' -> Coq_Pos.compare x' y'
                  | _ -> Gt)
    | Zneg x' ->
      (match y with
       | Zneg y' -> compOpp (Coq_Pos.compare x' y')
       | _ -> Lt)

  (** val leb : z -> z -> bool **)

  let leb x y =
    match compare x y with
    | Gt -> false
    | _ -> true

  (** val ltb : z -> z -> bool **)

  let ltb x y =
    match compare x y with
    | Lt -> true
    | _ -> false

  (** val geb : z -> z -> bool **)

  let geb x y =
    match compare x y with
    | Lt -> false
    | _ -> true

  (** val gtb : z -> z -> bool **)

  let gtb x y =
    match compare x y with
    | Gt -> true
    | _ -> false

  (** val eqb : z -> z -> bool **)

  let eqb x y =
    match x with
    | Z0 -> (match y with
             | Z0 -> true
             | _ -> false)
    | Zpos p0 -> (match y with
                  | Zpos q -> Coq_Pos.eqb p0 q
                  | _ -> false)
    | Zneg p0 -> (match y with
                  | Zneg q -> Coq_Pos.eqb p0 q
                  | _ -> false)

  (** val abs : z -> z **)

  let abs = function
  | Zneg p0 -> Zpos p0
  | x -> x

  (** val to_N : z -> n **)

  let to_N = function
  | Zpos p0 -> Npos p0
  | _ -> N0

  (** val of_N : n -> z **)

  let of_N = function
  | N0 -> Z0
  | Npos p0 -> Zpos p0

  (** val pos_div_eucl : positive -> z -> z * z **)

  let rec pos_div_eucl a b =
    match a with
    | XI a' ->
      let (q, r) = pos_div_eucl a' b in
      let r' = add (mul (Zpos (XO XH)) r) (Zpos XH) in
      if ltb r' b
      then ((mul (Zpos (XO XH)) q), r')
      else ((add (mul (Zpos (XO XH)) q) (Zpos XH)), (sub r' b))
    | XO a' ->
      let (q, r) = pos_div_eucl a' b in
      let r' = mul (Zpos (XO XH)) r in
      if ltb r' b
      then ((mul (Zpos (XO XH)) q), r')
      else ((add (mul (Zpos (XO XH)) q) (Zpos XH)), (sub r' b))
    | XH -> if leb (Zpos (XO XH)) b then (Z0, (Zpos XH)) else ((Zpos XH), Z0)

  (** val div_eucl : z -> z -> z * z **)

  let div_eucl a b =
    match a with
    | Z0 -> (Z0, Z0)
    | Zpos a' ->
      (match b with
       | Z0 -> (Z0, a)
       | Zpos _ -> pos_div_eucl a' b
       | Zneg b' ->
         let (q, r) = pos_div_eucl a' (Zpos b') in
         (match r with
          | Z0 -> ((opp q), Z0)
          | _ -> ((opp (add q (Zpos XH))), (add b r))))
    | Zneg a' ->
      (match b with
       | Z0 -> (Z0, a)
       | Zpos _ ->
         let (q, r) = pos_div_eucl a' b in
         (match r with
          | Z0 -> ((opp q), Z0)
          | _ -> ((opp (add q (Zpos XH))), (sub b r)))
       | Zneg b' -> let (q, r) = pos_div_eucl a' (Zpos b') in (q, (opp r)))

  (** val div : z -> z -> z **)

  let div a b =
    let (q, _) = div_eucl a b in q

  (** val modulo : z -> z -> z **)

  let modulo a b =
    let (_, r) = div_eucl a b in r

  (** val quotrem : z -> z -> z * z **)

  let quotrem a b =
    match a with
    | Z0 -> (Z0, Z0)
    | Zpos a0 ->
      (match b with
       | Z0 -> (Z0, a)
       | Zpos b0 ->
         let (q, r) = N.pos_div_eucl a0 (Npos b0) in ((of_N q), (of_N r))
       | Zneg b0 ->
         let (q, r) = N.pos_div_eucl a0 (Npos b0) in
         ((opp (of_N q)), (of_N r)))
    | Zneg a0 ->
      (match b with
       | Z0 -> (Z0, a)
       | Zpos b0 ->
         let (q, r) = N.pos_div_eucl a0 (Npos b0) in
         ((opp (of_N q)), (opp (of_N r)))
       | Zneg b0 ->
         let (q, r) = N.pos_div_eucl a0 (Npos b0) in
         ((of_N q), (opp (of_N r))))

  (** val quot : z -> z -> z **)

  let quot a b =
    fst (quotrem a b)

  (** val rem : z -> z -> z **)

  let rem a b =
    snd (quotrem a b)

  (** val even : z -> bool **)

  let even = function
  | Z0 -> true
  | Zpos p0 -> (match p0 with
                | XO _ -> true
                | _ -> false)
  | Zneg p0 -> (match p0 with
                | XO _ -> true
                | _ -> false)

  (** val log2 : z -> z **)

  let log2 = function
  | Zpos p0 ->
    (match p0 with
     | XI p1 -> Zpos (Coq_Pos.size p1)
     | XO p1 -> Zpos (Coq_Pos.size p1)
     | XH -> Z0)
  | _ -> Z0
 end

type byte = n

type bytes = byte list

(** val bcompare : bytes -> bytes -> comparison **)

let rec bcompare a b =
  match a with
  | [] -> (match b with
           | [] -> Eq
           | _ :: _ -> Lt)
  | x :: a' ->
    (match b with
     | [] -> Gt
     | y :: b' -> (match N.compare x y with
                   | Eq -> bcompare a' b'
                   | x0 -> x0))

(** val bltb : bytes -> bytes -> bool **)

let bltb a b =
  match bcompare a b with
  | Lt -> true
  | _ -> false

(** val bleb : bytes -> bytes -> bool **)

let bleb a b =
  match bcompare a b with
  | Gt -> false
  | _ -> true

(** val beqb : bytes -> bytes -> bool **)

let beqb a b =
  match bcompare a b with
  | Eq -> true
  | _ -> false

(** val has_prefix : bytes -> bytes -> bool **)

let rec has_prefix p0 k =
  match p0 with
  | [] -> true
  | x :: p' ->
    (match k with
     | [] -> false
     | y :: k' -> (&&) (N.eqb x y) (has_prefix p' k'))

(** val bitlen : z -> z **)

let bitlen z0 =
  if Z.eqb z0 Z0 then Z0 else Z.add (Z.log2 (Z.abs z0)) (Zpos XH)

(** val max_bit_len : z **)

let max_bit_len =
  Zpos (XI (XI (XI (XI (XI (XI (XI XH)))))))

(** val int_ok : z -> bool **)

let int_ok z0 =
  Z.leb (bitlen z0) max_bit_len

(** val int_chk : z -> z option **)

let int_chk z0 =
  if int_ok z0 then Some z0 else None

(** val int_new_from_big : z -> z option **)

let int_new_from_big =
  int_chk

(** val int_add : z -> z -> z option **)

let int_add a b =
  int_chk (Z.add a b)

(** val int_sub : z -> z -> z option **)

let int_sub a b =
  int_chk (Z.sub a b)

(** val int_mul : z -> z -> z option **)

let int_mul a b =
  if Z.gtb (Z.sub (Z.add (bitlen a) (bitlen b)) (Zpos XH)) max_bit_len
  then None
  else int_chk (Z.mul a b)

(** val int_quo : z -> z -> z option **)

let int_quo a b =
  if Z.eqb b Z0 then None else Some (Z.quot a b)

(** val euclid_mod : z -> z -> z **)

let euclid_mod a b =
  Z.modulo a (Z.abs b)

(** val int_mod : z -> z -> z option **)

let int_mod a b =
  if Z.eqb b Z0 then None else Some (euclid_mod a b)

(** val int_neg : z -> z **)

let int_neg =
  Z.opp

(** val int_min : z -> z -> z **)

let int_min a b =
  if Z.gtb a b then b else a

(** val int_max : z -> z -> z **)

let int_max a b =
  if Z.ltb a b then b else a

(** val is_int64 : z -> bool **)

let is_int64 z0 =
  (&&)
    (Z.leb (Z.opp (Z.pow (Zpos (XO XH)) (Zpos (XI (XI (XI (XI (XI XH))))))))
      z0) (Z.ltb z0 (Z.pow (Zpos (XO XH)) (Zpos (XI (XI (XI (XI (XI XH))))))))

(** val int_int64 : z -> z option **)

let int_int64 a =
  if is_int64 a then Some a else None

(** val uint_ok : z -> bool **)

let uint_ok z0 =
  (&&) (Z.leb Z0 z0)
    (Z.leb (bitlen z0) (Zpos (XO (XO (XO (XO (XO (XO (XO (XO XH))))))))))

(** val uint_chk : z -> z option **)

let uint_chk z0 =
  if uint_ok z0 then Some z0 else None

(** val uint_add : z -> z -> z option **)

let uint_add a b =
  uint_chk (Z.add a b)

(** val uint_sub : z -> z -> z option **)

let uint_sub a b =
  uint_chk (Z.sub a b)

(** val uint_mul : z -> z -> z option **)

let uint_mul a b =
  uint_chk (Z.mul a b)

(** val uint_quo : z -> z -> z option **)

let uint_quo a b =
  if Z.eqb b Z0 then None else uint_chk (Z.quot a b)

(** val is_uint64 : z -> bool **)

let is_uint64 z0 =
  (&&) (Z.leb Z0 z0)
    (Z.ltb z0 (Z.pow (Zpos (XO XH)) (Zpos (XO (XO (XO (XO (XO (XO XH)))))))))

(** val uint_uint64 : z -> z option **)

let uint_uint64 a =
  if is_uint64 a then Some a else None

(** val int_unmarshal : z -> z option **)

let int_unmarshal =
  int_chk

(** val uint_unmarshal : z -> z option **)

let uint_unmarshal =
  int_chk

(** val power_reduction : z **)

let power_reduction =
  Z.pow (Zpos (XO (XI (XO XH)))) (Zpos (XO (XI XH)))

(** val tokens_to_power : z -> z option **)

let tokens_to_power t =
  match int_quo t power_reduction with
  | Some q -> int_int64 q
  | None -> None

(** val tokens_from_power : z -> z option **)

let tokens_from_power p0 =
  int_mul p0 power_reduction

(** val in_uint_b : z -> bool **)

let in_uint_b z0 =
  (&&) (Z.leb Z0 z0)
    (Z.ltb z0
      (Z.pow (Zpos (XO XH)) (Zpos (XO (XO (XO (XO (XO (XO (XO (XO XH)))))))))))

(** val p : z **)

let p =
  Z.pow (Zpos (XO (XI (XO XH)))) (Zpos (XO (XI (XO (XO XH)))))

(** val five_precision : z **)

let five_precision =
  Z.div p (Zpos (XO XH))

(** val dec_bits : z **)

let dec_bits =
  Z.add (Zpos (XI (XI (XI (XI (XI (XI (XI XH)))))))) (Zpos (XO (XO (XI (XI
    (XI XH))))))

(** val dec_ok : z -> bool **)

let dec_ok z0 =
  Z.leb (bitlen z0) dec_bits

(** val dec_chk : z -> z option **)

let dec_chk z0 =
  if dec_ok z0 then Some z0 else None

(** val chop_round_pos : z -> z **)

let chop_round_pos d =
  let q = Z.div d p in
  let r = Z.modulo d p in
  if Z.eqb r Z0
  then q
  else (match Z.compare r five_precision with
        | Eq -> if Z.even q then q else Z.add q (Zpos XH)
        | Lt -> q
        | Gt -> Z.add q (Zpos XH))

(** val chop_round : z -> z **)

let chop_round d =
  if Z.ltb d Z0 then Z.opp (chop_round_pos (Z.opp d)) else chop_round_pos d

(** val chop_trunc : z -> z **)

let chop_trunc d =
  Z.quot d p

(** val chop_round_up : z -> z **)

let chop_round_up d =
  if Z.ltb d Z0
  then Z.opp (chop_trunc (Z.opp d))
  else let q = Z.div d p in
       if Z.eqb (Z.modulo d p) Z0 then q else Z.add q (Zpos XH)

(** val dec_add : z -> z -> z option **)

let dec_add a b =
  dec_chk (Z.add a b)

(** val dec_sub : z -> z -> z option **)

let dec_sub a b =
  dec_chk (Z.sub a b)

(** val dec_mul : z -> z -> z option **)

let dec_mul a b =
  dec_chk (chop_round (Z.mul a b))

(** val dec_mul_truncate : z -> z -> z option **)

let dec_mul_truncate a b =
  dec_chk (chop_trunc (Z.mul a b))

(** val dec_mul_int : z -> z -> z option **)

let dec_mul_int a i =
  dec_chk (Z.mul a i)

(** val dec_quo : z -> z -> z option **)

let dec_quo a b =
  if Z.eqb b Z0
  then None
  else dec_chk (chop_round (Z.quot (Z.mul (Z.mul a p) p) b))

(** val dec_quo_truncate : z -> z -> z option **)

let dec_quo_truncate a b =
  if Z.eqb b Z0
  then None
  else dec_chk (chop_trunc (Z.quot (Z.mul (Z.mul a p) p) b))

(** val dec_quo_round_up : z -> z -> z option **)

let dec_quo_round_up a b =
  if Z.eqb b Z0
  then None
  else dec_chk (chop_round_up (Z.quot (Z.mul (Z.mul a p) p) b))

(** val dec_quo_int : z -> z -> z option **)

let dec_quo_int a i =
  if Z.eqb i Z0 then None else Some (Z.quot a i)

(** val dec_is_integer : z -> bool **)

let dec_is_integer a =
  Z.eqb (Z.rem a p) Z0

(** val dec_round_int64 : z -> z option **)

let dec_round_int64 a =
  int_int64 (chop_round a)

(** val dec_round_int : z -> z option **)

let dec_round_int a =
  int_new_from_big (chop_round a)

(** val dec_truncate_int64 : z -> z option **)

let dec_truncate_int64 a =
  int_int64 (chop_trunc a)

(** val dec_truncate_int : z -> z option **)

let dec_truncate_int a =
  int_new_from_big (chop_trunc a)

(** val dec_truncate_dec : z -> z **)

let dec_truncate_dec a =
  Z.mul (chop_trunc a) p

(** val dec_ceil : z -> z **)

let dec_ceil a =
  let q = Z.quot a p in
  let r = Z.rem a p in
  if Z.eqb r Z0
  then Z.mul q p
  else if Z.ltb r Z0 then Z.mul q p else Z.mul (Z.add q (Zpos XH)) p

(** val dec_from_int : z -> z **)

let dec_from_int i =
  Z.mul i p

(** val round_half_even : z -> z -> z **)

let round_half_even n0 d =
  let q = Z.div n0 d in
  let r = Z.modulo n0 d in
  (match Z.compare (Z.mul (Zpos (XO XH)) r) d with
   | Eq -> if Z.even q then q else Z.add q (Zpos XH)
   | Lt -> q
   | Gt -> Z.add q (Zpos XH))

(** val ceil_div : z -> z -> z **)

let ceil_div n0 d =
  Z.opp (Z.div (Z.opp n0) d)

(** val spec_quo : z -> z -> z **)

let spec_quo a b =
  if Z.ltb b Z0
  then round_half_even (Z.opp (Z.mul a p)) (Z.opp b)
  else round_half_even (Z.mul a p) b

(** val spec_quo_round_up : z -> z -> z **)

let spec_quo_round_up a b =
  if Z.ltb b Z0
  then ceil_div (Z.opp (Z.mul a p)) (Z.opp b)
  else ceil_div (Z.mul a p) b

(** val spec_quo_truncate : z -> z -> z **)

let spec_quo_truncate a b =
  Z.quot (Z.mul a p) b

(** val spec_mul : z -> z -> z **)

let spec_mul a b =
  round_half_even (Z.mul a b) p

type coin = bytes * z

type coins = coin list

(** val is_lower : n -> bool **)

let is_lower c =
  (&&) (N.leb (Npos (XI (XO (XO (XO (XO (XI XH))))))) c)
    (N.leb c (Npos (XO (XI (XO (XI (XI (XI XH))))))))

(** val is_digit : n -> bool **)

let is_digit c =
  (&&) (N.leb (Npos (XO (XO (XO (XO (XI XH)))))) c)
    (N.leb c (Npos (XI (XO (XO (XI (XI XH)))))))

(** val valid_denom : bytes -> bool **)

let valid_denom = function
| [] -> false
| c :: r ->
  (&&)
    ((&&)
      ((&&) (is_lower c)
        (forallb (fun x -> (||) (is_lower x) (is_digit x)) r))
      (Nat.leb (S (S O)) (length r)))
    (Nat.leb (length r) (S (S (S (S (S (S (S (S (S (S (S (S (S (S (S
      O))))))))))))))))

(** val remove_zero : coins -> coins **)

let rec remove_zero = function
| [] -> []
| c :: r ->
  let (d, a) = c in
  if Z.eqb a Z0 then remove_zero r else (d, a) :: (remove_zero r)

(** val safe_add : coins -> coins -> coins option **)

let rec safe_add a =
  let rec go b =
    match a with
    | [] -> Some (remove_zero b)
    | c :: a' ->
      let (da, xa) = c in
      (match b with
       | [] -> Some (remove_zero a)
       | c0 :: b' ->
         let (db, xb) = c0 in
         (match bcompare da db with
          | Eq ->
            (match int_add xa xb with
             | Some s ->
               (match safe_add a' b' with
                | Some r -> Some (if Z.eqb s Z0 then r else (da, s) :: r)
                | None -> None)
             | None -> None)
          | Lt ->
            (match safe_add a' b with
             | Some r -> Some (if Z.eqb xa Z0 then r else (da, xa) :: r)
             | None -> None)
          | Gt ->
            (match go b' with
             | Some r -> Some (if Z.eqb xb Z0 then r else (db, xb) :: r)
             | None -> None)))
  in go

(** val negative : coins -> coins **)

let negative cs =
  map (fun c -> ((fst c), (Z.opp (snd c)))) cs

(** val is_any_negative : coins -> bool **)

let is_any_negative cs =
  existsb (fun c -> Z.ltb (snd c) Z0) cs

(** val safe_sub : coins -> coins -> (coins * bool) option **)

let safe_sub a b =
  match safe_add a (negative b) with
  | Some d -> Some (d, (is_any_negative d))
  | None -> None

(** val coins_sub : coins -> coins -> coins option **)

let coins_sub a b =
  match safe_sub a b with
  | Some p0 -> let (d, b0) = p0 in if b0 then None else Some d
  | None -> None

(** val valid_tail : bytes -> coins -> bool **)

let rec valid_tail low = function
| [] -> true
| c :: r ->
  let (d, a) = c in (&&) ((&&) (bltb low d) (Z.ltb Z0 a)) (valid_tail d r)

(** val coins_valid : coins -> bool **)

let coins_valid = function
| [] -> true
| c :: r ->
  let (d, a) = c in (&&) ((&&) (valid_denom d) (Z.ltb Z0 a)) (valid_tail d r)

(** val amount_of_fuel : nat -> coins -> bytes -> z **)

let rec amount_of_fuel fuel cs d =
  match fuel with
  | O -> Z0
  | S f ->
    (match cs with
     | [] -> Z0
     | c :: l ->
       let (d0, a0) = c in
       (match l with
        | [] -> if beqb d0 d then a0 else Z0
        | _ :: _ ->
          let mid = Nat.div2 (length cs) in
          (match nth_error cs mid with
           | Some c0 ->
             let (dm, am) = c0 in
             (match bcompare d dm with
              | Eq -> am
              | Lt -> amount_of_fuel f (firstn mid cs) d
              | Gt -> amount_of_fuel f (skipn (S mid) cs) d)
           | None -> Z0)))

(** val amount_of : coins -> bytes -> z option **)

let amount_of cs d =
  if valid_denom d then Some (amount_of_fuel (length cs) cs d) else None

(** val ao : coins -> bytes -> z **)

let ao cs d =
  amount_of_fuel (length cs) cs d

(** val is_all_gte : coins -> coins -> bool **)

let is_all_gte a b = match b with
| [] -> true
| _ :: _ ->
  (match a with
   | [] -> false
   | _ :: _ -> forallb (fun cb -> negb (Z.gtb (snd cb) (ao a (fst cb)))) b)

(** val denoms_subset_of : coins -> coins -> bool **)

let denoms_subset_of a b =
  if Nat.ltb (length b) (length a)
  then false
  else forallb (fun c -> negb (Z.eqb (ao b (fst c)) Z0)) a

(** val is_all_gt : coins -> coins -> bool **)

let is_all_gt a b =
  match a with
  | [] -> false
  | _ :: _ ->
    (match b with
     | [] -> true
     | _ :: _ ->
       (&&) (denoms_subset_of b a)
         (forallb (fun cb -> Z.gtb (ao a (fst cb)) (snd cb)) b))

(** val is_any_gte : coins -> coins -> bool **)

let is_any_gte a b = match b with
| [] -> false
| _ :: _ ->
  existsb (fun c ->
    (&&) (Z.geb (snd c) (ao b (fst c))) (negb (Z.eqb (ao b (fst c)) Z0))) a

(** val coins_is_zero : coins -> bool **)

let coins_is_zero a =
  forallb (fun c -> Z.eqb (snd c) Z0) a

(** val coins_equal : coins -> coins -> bool option **)

let rec coins_equal a b =
  match a with
  | [] -> (match b with
           | [] -> Some true
           | _ :: _ -> Some false)
  | c :: a' ->
    let (da, xa) = c in
    (match b with
     | [] -> Some false
     | c0 :: b' ->
       let (db, xb) = c0 in
       if Nat.eqb (length a') (length b')
       then if beqb da db
            then if Z.eqb xa xb then coins_equal a' b' else Some false
            else None
       else Some false)

(** val insert_coin : coin -> coins -> coins **)

let rec insert_coin c l = match l with
| [] -> c :: []
| x :: r ->
  (match bcompare (fst c) (fst x) with
   | Gt -> x :: (insert_coin c r)
   | _ -> c :: l)

(** val sort_coins : coins -> coins **)

let sort_coins l =
  fold_right insert_coin [] l

(** val has_dup : coins -> bool **)

let rec has_dup = function
| [] -> false
| x :: r ->
  (match r with
   | [] -> false
   | y :: _ -> (||) (beqb (fst x) (fst y)) (has_dup r))

(** val new_coins : coins -> coins option **)

let new_coins cs =
  match remove_zero cs with
  | [] -> Some []
  | c :: l ->
    let s = sort_coins (c :: l) in
    if has_dup s then None else if coins_valid s then Some s else None

type 'v amap = (bytes * 'v) list

(** val aget : 'a1 amap -> bytes -> 'a1 option **)

let rec aget m k =
  match m with
  | [] -> None
  | p0 :: r ->
    let (k0, v0) = p0 in
    (match bcompare k k0 with
     | Eq -> Some v0
     | Lt -> None
     | Gt -> aget r k)

(** val aset : 'a1 amap -> bytes -> 'a1 -> 'a1 amap **)

let rec aset m k v =
  match m with
  | [] -> (k, v) :: []
  | p0 :: r ->
    let (k0, v0) = p0 in
    (match bcompare k k0 with
     | Eq -> (k, v) :: r
     | Lt -> (k, v) :: m
     | Gt -> (k0, v0) :: (aset r k v))

(** val adel : 'a1 amap -> bytes -> 'a1 amap **)

let rec adel m k =
  match m with
  | [] -> []
  | p0 :: r ->
    let (k0, v0) = p0 in
    (match bcompare k k0 with
     | Eq -> r
     | Lt -> m
     | Gt -> (k0, v0) :: (adel r k))

type kv = bytes amap

(** val in_domain : bytes -> bytes -> bytes option -> bool **)

let in_domain k s e =
  (&&) (bleb s k) (match e with
                   | Some e' -> bltb k e'
                   | None -> true)

(** val dir : bool -> 'a1 list -> 'a1 list **)

let dir asc l =
  if asc then l else rev l

(** val kv_range :
    'a1 amap -> bytes -> bytes option -> bool -> (bytes * 'a1) list **)

let kv_range m s e asc =
  dir asc (filter (fun p0 -> in_domain (fst p0) s e) m)

(** val prefix_end_rev : bytes -> bytes option **)

let rec prefix_end_rev = function
| [] -> None
| x :: r' ->
  if N.eqb x (Npos (XI (XI (XI (XI (XI (XI (XI XH))))))))
  then prefix_end_rev r'
  else Some ((N.add x (Npos XH)) :: r')

(** val prefix_end_bytes : bytes -> bytes option **)

let prefix_end_bytes p0 = match p0 with
| [] -> None
| _ :: _ ->
  (match prefix_end_rev (rev p0) with
   | Some r -> Some (rev r)
   | None -> None)

(** val inclusive_end_bytes : bytes -> bytes **)

let inclusive_end_bytes b =
  app b (N0 :: [])

(** val max_u64 : n **)

let max_u64 =
  Npos (XI (XI (XI (XI (XI (XI (XI (XI (XI (XI (XI (XI (XI (XI (XI (XI (XI
    (XI (XI (XI (XI (XI (XI (XI (XI (XI (XI (XI (XI (XI (XI (XI (XI (XI (XI
    (XI (XI (XI (XI (XI (XI (XI (XI (XI (XI (XI (XI (XI (XI (XI (XI (XI (XI
    (XI (XI (XI (XI (XI (XI (XI (XI (XI (XI
    XH)))))))))))))))))))))))))))))))))))))))))))))))))))))))))))))))

type gascfg = { g_has : n; g_delete : n; g_read_flat : n; g_read_byte : 
                n; g_write_flat : n; g_write_byte : n; g_iter_flat : 
                n }

type pkind =
| POutOfGas
| PGasOverflow
| PInvalidIter
| POther

type 'a res =
| Ok of 'a
| Panic of pkind

type tline = (n * bytes) * bytes

type world = { w_limit : n option; w_consumed : n; w_trace : tline list;
               w_cfg : gascfg }

(** val set_consumed : world -> n -> world **)

let set_consumed w c =
  { w_limit = w.w_limit; w_consumed = c; w_trace = w.w_trace; w_cfg =
    w.w_cfg }

(** val log : world -> tline -> world **)

let log w l =
  { w_limit = w.w_limit; w_consumed = w.w_consumed; w_trace =
    (l :: w.w_trace); w_cfg = w.w_cfg }

(** val consume : n -> world -> unit res * world **)

let consume amount w =
  if N.ltb (N.sub max_u64 w.w_consumed) amount
  then ((Panic PGasOverflow), (set_consumed w N0))
  else let c = N.add w.w_consumed amount in
       let w' = set_consumed w c in
       (match w.w_limit with
        | Some lim ->
          if N.ltb lim c then ((Panic POutOfGas), w') else ((Ok ()), w')
        | None -> ((Ok ()), w'))

(** val mul64 : n -> n -> n **)

let mul64 a b =
  N.modulo (N.mul a b) (Npos (XO (XO (XO (XO (XO (XO (XO (XO (XO (XO (XO (XO
    (XO (XO (XO (XO (XO (XO (XO (XO (XO (XO (XO (XO (XO (XO (XO (XO (XO (XO
    (XO (XO (XO (XO (XO (XO (XO (XO (XO (XO (XO (XO (XO (XO (XO (XO (XO (XO
    (XO (XO (XO (XO (XO (XO (XO (XO (XO (XO (XO (XO (XO (XO (XO (XO
    XH)))))))))))))))))))))))))))))))))))))))))))))))))))))))))))))))))

(** val blen : bytes -> n **)

let blen b =
  N.of_nat (length b)

(** val olen : bytes option -> n **)

let olen = function
| Some x -> blen x
| None -> N0

type centry = { ce_val : bytes option; ce_deleted : bool; ce_dirty : bool }

type mem_item = bytes * bytes option

type cstate = { c_cache : centry amap; c_unsorted : unit amap;
                c_sorted : mem_item list }

(** val c_empty : cstate **)

let c_empty =
  { c_cache = []; c_unsorted = []; c_sorted = [] }

(** val set_cache_value :
    cstate -> bytes -> bytes option -> bool -> bool -> cstate **)

let set_cache_value c k v deleted dirty =
  { c_cache =
    (aset c.c_cache k { ce_val = v; ce_deleted = deleted; ce_dirty = dirty });
    c_unsorted = (if dirty then aset c.c_unsorted k () else c.c_unsorted);
    c_sorted = c.c_sorted }

(** val merge_dirty : mem_item list -> mem_item list -> mem_item list **)

let rec merge_dirty un =
  let rec go so =
    match un with
    | [] -> so
    | u :: un' ->
      (match so with
       | [] -> un
       | s :: so' ->
         (match bcompare (fst u) (fst s) with
          | Eq -> u :: (merge_dirty un' so')
          | Lt -> u :: (merge_dirty un' so)
          | Gt -> s :: (go so')))
  in go

(** val cache_val : cstate -> bytes -> bytes option **)

let cache_val c k =
  match aget c.c_cache k with
  | Some e -> e.ce_val
  | None -> None

(** val dirty_items : cstate -> bytes -> bytes option -> cstate **)

let dirty_items c s e =
  let moved = filter (fun p0 -> in_domain (fst p0) s e) c.c_unsorted in
  let un = map (fun p0 -> ((fst p0), (cache_val c (fst p0)))) moved in
  { c_cache = c.c_cache; c_unsorted =
  (filter (fun p0 -> negb (in_domain (fst p0) s e)) c.c_unsorted); c_sorted =
  (merge_dirty un c.c_sorted) }

(** val mem_scan :
    bool -> bytes -> bytes option -> mem_item list -> mem_item list **)

let rec mem_scan entered s e = function
| [] -> []
| it :: r ->
  if in_domain (fst it) s e
  then it :: (mem_scan true s e r)
  else if entered then [] else mem_scan false s e r

(** val mem_items :
    cstate -> bytes -> bytes option -> bool -> mem_item list **)

let mem_items c s e asc =
  dir asc (mem_scan false s e c.c_sorted)

(** val cmp : bool -> bytes -> bytes -> comparison **)

let cmp asc a b =
  if asc then bcompare a b else compOpp (bcompare a b)

type miter = { mi_par : (bytes * bytes) list; mi_cac : mem_item list;
               mi_asc : bool }

(** val mk_miter : (bytes * bytes) list -> mem_item list -> bool -> miter **)

let mk_miter p0 c a =
  { mi_par = p0; mi_cac = c; mi_asc = a }

(** val skip_cache_deletes :
    bool -> bytes option -> mem_item list -> mem_item list **)

let rec skip_cache_deletes asc until cac = match cac with
| [] -> cac
| m :: r ->
  let (k, o) = m in
  (match o with
   | Some _ -> cac
   | None ->
     (match until with
      | Some u ->
        (match cmp asc k u with
         | Lt -> skip_cache_deletes asc until r
         | _ -> cac)
      | None -> skip_cache_deletes asc until r))

(** val skip_until : nat -> miter -> (miter * bool) option **)

let rec skip_until fuel it =
  match fuel with
  | O -> None
  | S f ->
    (match it.mi_par with
     | [] ->
       let c = skip_cache_deletes it.mi_asc None it.mi_cac in
       Some ((mk_miter [] c it.mi_asc),
       (match c with
        | [] -> false
        | _ :: _ -> true))
     | p0 :: pr ->
       let (kp, _) = p0 in
       (match it.mi_cac with
        | [] -> Some (it, true)
        | m :: cr ->
          let (kc, vc) = m in
          (match cmp it.mi_asc kp kc with
           | Eq ->
             (match vc with
              | Some _ -> Some (it, true)
              | None -> skip_until f (mk_miter pr cr it.mi_asc))
           | Lt -> Some (it, true)
           | Gt ->
             (match vc with
              | Some _ -> Some (it, true)
              | None ->
                skip_until f
                  (mk_miter it.mi_par
                    (skip_cache_deletes it.mi_asc (Some kp) it.mi_cac)
                    it.mi_asc)))))

(** val m_current : miter -> (bytes * bytes option) option **)

let m_current it =
  match it.mi_par with
  | [] -> (match it.mi_cac with
           | [] -> None
           | m :: _ -> Some m)
  | p0 :: _ ->
    let (kp, vp) = p0 in
    (match it.mi_cac with
     | [] -> Some (kp, (Some vp))
     | m :: _ ->
       let (kc, vc) = m in
       (match cmp it.mi_asc kp kc with
        | Eq -> Some (kp, vc)
        | Lt -> Some (kp, (Some vp))
        | Gt -> Some (kc, vc)))

(** val m_next : miter -> miter **)

let m_next it =
  match it.mi_par with
  | [] ->
    (match it.mi_cac with
     | [] -> it
     | _ :: cr -> mk_miter [] cr it.mi_asc)
  | p0 :: pr ->
    let (kp, _) = p0 in
    (match it.mi_cac with
     | [] -> mk_miter pr [] it.mi_asc
     | m :: cr ->
       let (kc, _) = m in
       (match cmp it.mi_asc kp kc with
        | Eq -> mk_miter pr cr it.mi_asc
        | Lt -> mk_miter pr it.mi_cac it.mi_asc
        | Gt -> mk_miter it.mi_par cr it.mi_asc))

(** val m_collect : nat -> miter -> (bytes * bytes) list option **)

let rec m_collect fuel it =
  match fuel with
  | O -> None
  | S f ->
    let sf = S (add (length it.mi_par) (length it.mi_cac)) in
    (match skip_until sf it with
     | Some p0 ->
       let (it1, b) = p0 in
       if b
       then (match m_current it1 with
             | Some p1 ->
               let (k, o) = p1 in
               (match o with
                | Some v ->
                  (match m_collect f (m_next it1) with
                   | Some r -> Some ((k, v) :: r)
                   | None -> None)
                | None -> None)
             | None -> None)
       else Some []
     | None -> None)

(** val merge_run :
    (bytes * bytes) list -> mem_item list -> bool -> (bytes * bytes) list
    option **)

let merge_run par cac asc =
  m_collect (S (add (length par) (length cac))) (mk_miter par cac asc)

type store =
| Base of kv
| Cache of cstate * store
| Prefix of bytes * store
| Gas of store
| Trace of store

type iter0 =
| IList of (bytes * bytes) list
| IPrefix of bytes * bool * iter0
| IGas of iter0
| ITrace of iter0

(** val strip : bytes -> bytes -> bytes **)

let strip pfx k =
  skipn (length pfx) k

(** val bind :
    ('a1 res * world) -> ('a1 -> world -> 'a2 res * world) -> 'a2 res * world **)

let bind x f =
  let (r, w) = x in (match r with
                     | Ok a -> f a w
                     | Panic k -> ((Panic k), w))

(** val it_valid : iter0 -> bool **)

let rec it_valid = function
| IList l -> (match l with
              | [] -> false
              | _ :: _ -> true)
| IPrefix (_, v, inner) -> (&&) v (it_valid inner)
| IGas inner -> it_valid inner
| ITrace inner -> it_valid inner

(** val it_key : iter0 -> world -> bytes res * world **)

let rec it_key it w =
  match it with
  | IList l ->
    (match l with
     | [] -> ((Panic PInvalidIter), w)
     | p0 :: _ -> let (k, _) = p0 in ((Ok k), w))
  | IPrefix (pfx, v, inner) ->
    if v
    then bind (it_key inner w) (fun k w' -> ((Ok (strip pfx k)), w'))
    else ((Panic PInvalidIter), w)
  | IGas inner -> it_key inner w
  | ITrace inner ->
    bind (it_key inner w) (fun k w' -> ((Ok k),
      (log w' (((Npos (XI XH)), k), []))))

(** val it_value : iter0 -> world -> bytes res * world **)

let rec it_value it w =
  match it with
  | IList l ->
    (match l with
     | [] -> ((Panic PInvalidIter), w)
     | p0 :: _ -> let (_, v) = p0 in ((Ok v), w))
  | IPrefix (_, v, inner) ->
    if v then it_value inner w else ((Panic PInvalidIter), w)
  | IGas inner -> it_value inner w
  | ITrace inner ->
    bind (it_value inner w) (fun v w' -> ((Ok v),
      (log w' (((Npos (XO (XO XH))), []), v))))

(** val seek_gas : iter0 -> world -> unit res * world **)

let seek_gas inner w =
  bind (it_value inner w) (fun v w1 ->
    bind (consume (mul64 w1.w_cfg.g_read_byte (blen v)) w1) (fun _ w2 ->
      consume w2.w_cfg.g_iter_flat w2))

(** val it_next : iter0 -> world -> (unit res * iter0) * world **)

let rec it_next it w =
  match it with
  | IList l ->
    (match l with
     | [] -> (((Panic PInvalidIter), it), w)
     | _ :: r -> (((Ok ()), (IList r)), w))
  | IPrefix (pfx, v, inner) ->
    if v
    then let (p0, w') = it_next inner w in
         let (r, inner') = p0 in
         (match r with
          | Ok _ ->
            if it_valid inner'
            then let (r0, w'') = it_key inner' w' in
                 (match r0 with
                  | Ok k ->
                    (((Ok ()), (IPrefix (pfx, (has_prefix pfx k), inner'))),
                      w'')
                  | Panic p1 ->
                    (((Panic p1), (IPrefix (pfx, v, inner'))), w''))
            else (((Ok ()), (IPrefix (pfx, false, inner'))), w')
          | Panic p1 -> (((Panic p1), (IPrefix (pfx, v, inner'))), w'))
    else (((Panic PInvalidIter), it), w)
  | IGas inner ->
    let (r, w1) = if it_valid inner then seek_gas inner w else ((Ok ()), w) in
    (match r with
     | Ok _ ->
       let (p0, w2) = it_next inner w1 in
       let (r2, inner') = p0 in ((r2, (IGas inner')), w2)
     | Panic p0 -> (((Panic p0), it), w1))
  | ITrace inner ->
    let (p0, w') = it_next inner w in
    let (r, inner') = p0 in ((r, (ITrace inner')), w')

(** val drain : iter0 -> (bytes * bytes) list **)

let rec drain = function
| IList l -> l
| IPrefix (pfx, v, inner) ->
  if v
  then let rec take = function
       | [] -> []
       | p0 :: r ->
         let (k, x) = p0 in
         if has_prefix pfx k then ((strip pfx k), x) :: (take r) else []
       in take (drain inner)
  else []
| _ -> []

(** val s_get :
    store -> bytes -> world -> (bytes option res * store) * world **)

let rec s_get s k w =
  match s with
  | Base m -> (((Ok (aget m k)), s), w)
  | Cache (c, p0) ->
    (match aget c.c_cache k with
     | Some e -> (((Ok e.ce_val), s), w)
     | None ->
       let (p1, w') = s_get p0 k w in
       let (r, p') = p1 in
       (match r with
        | Ok v ->
          (((Ok v), (Cache ((set_cache_value c k v false false), p'))), w')
        | Panic x -> (((Panic x), (Cache (c, p'))), w')))
  | Prefix (pfx, p0) ->
    let (p1, w') = s_get p0 (app pfx k) w in
    let (r, p') = p1 in ((r, (Prefix (pfx, p'))), w')
  | Gas p0 ->
    let (r, w1) = consume w.w_cfg.g_read_flat w in
    (match r with
     | Ok _ ->
       let (p1, w2) = s_get p0 k w1 in
       let (r0, p') = p1 in
       (match r0 with
        | Ok v ->
          let (r1, w3) = consume (mul64 w2.w_cfg.g_read_byte (olen v)) w2 in
          (match r1 with
           | Ok _ -> (((Ok v), (Gas p')), w3)
           | Panic x -> (((Panic x), (Gas p')), w3))
        | Panic x -> (((Panic x), (Gas p')), w2))
     | Panic x -> (((Panic x), s), w1))
  | Trace p0 ->
    let (p1, w') = s_get p0 k w in
    let (r, p') = p1 in
    (match r with
     | Ok v ->
       (((Ok v), (Trace p')),
         (log w' (((Npos XH), k), (match v with
                                   | Some x -> x
                                   | None -> []))))
     | Panic x -> (((Panic x), (Trace p')), w'))

(** val s_has : store -> bytes -> world -> (bool res * store) * world **)

let rec s_has s k w =
  match s with
  | Base m ->
    (((Ok (match aget m k with
           | Some _ -> true
           | None -> false)), s), w)
  | Cache (c, p0) ->
    (match aget c.c_cache k with
     | Some e ->
       (((Ok (match e.ce_val with
              | Some _ -> true
              | None -> false)), s), w)
     | None ->
       let (p1, w') = s_get p0 k w in
       let (r, p') = p1 in
       (match r with
        | Ok v ->
          (((Ok (match v with
                 | Some _ -> true
                 | None -> false)), (Cache
            ((set_cache_value c k v false false), p'))), w')
        | Panic x -> (((Panic x), (Cache (c, p'))), w')))
  | Prefix (pfx, p0) ->
    let (p1, w') = s_has p0 (app pfx k) w in
    let (r, p') = p1 in ((r, (Prefix (pfx, p'))), w')
  | Gas p0 ->
    let (r, w1) = consume w.w_cfg.g_has w in
    (match r with
     | Ok _ ->
       let (p1, w2) = s_has p0 k w1 in
       let (r0, p') = p1 in ((r0, (Gas p')), w2)
     | Panic x -> (((Panic x), s), w1))
  | Trace p0 ->
    let (p1, w') = s_has p0 k w in let (r, p') = p1 in ((r, (Trace p')), w')

(** val s_set :
    store -> bytes -> bytes -> world -> (unit res * store) * world **)

let rec s_set s k v w =
  match s with
  | Base m -> (((Ok ()), (Base (aset m k v))), w)
  | Cache (c, p0) ->
    (((Ok ()), (Cache ((set_cache_value c k (Some v) false true), p0))), w)
  | Prefix (pfx, p0) ->
    let (p1, w') = s_set p0 (app pfx k) v w in
    let (r, p') = p1 in ((r, (Prefix (pfx, p'))), w')
  | Gas p0 ->
    let (r, w1) = consume w.w_cfg.g_write_flat w in
    (match r with
     | Ok _ ->
       let (r0, w2) = consume (mul64 w1.w_cfg.g_write_byte (blen v)) w1 in
       (match r0 with
        | Ok _ ->
          let (p1, w3) = s_set p0 k v w2 in
          let (r1, p') = p1 in ((r1, (Gas p')), w3)
        | Panic x -> (((Panic x), s), w2))
     | Panic x -> (((Panic x), s), w1))
  | Trace p0 ->
    let (p1, w') = s_set p0 k v (log w ((N0, k), v)) in
    let (r, p') = p1 in ((r, (Trace p')), w')

(** val s_delete : store -> bytes -> world -> (unit res * store) * world **)

let rec s_delete s k w =
  match s with
  | Base m -> (((Ok ()), (Base (adel m k))), w)
  | Cache (c, p0) ->
    (((Ok ()), (Cache ((set_cache_value c k None true true), p0))), w)
  | Prefix (pfx, p0) ->
    let (p1, w') = s_delete p0 (app pfx k) w in
    let (r, p') = p1 in ((r, (Prefix (pfx, p'))), w')
  | Gas p0 ->
    let (r, w1) = consume w.w_cfg.g_delete w in
    (match r with
     | Ok _ ->
       let (p1, w2) = s_delete p0 k w1 in
       let (r0, p') = p1 in ((r0, (Gas p')), w2)
     | Panic x -> (((Panic x), s), w1))
  | Trace p0 ->
    let (p1, w') = s_delete p0 k (log w (((Npos (XO XH)), k), [])) in
    let (r, p') = p1 in ((r, (Trace p')), w')

(** val s_iter :
    store -> bytes -> bytes option -> bool -> world -> (iter0
    res * store) * world **)

let rec s_iter s st en asc w =
  match s with
  | Base m -> (((Ok (IList (kv_range m st en asc))), s), w)
  | Cache (c, p0) ->
    let (p1, w') = s_iter p0 st en asc w in
    let (r, p') = p1 in
    (match r with
     | Ok ip ->
       let c' = dirty_items c st en in
       (match merge_run (drain ip) (mem_items c' st en asc) asc with
        | Some l -> (((Ok (IList l)), (Cache (c', p'))), w')
        | None -> (((Panic POther), (Cache (c', p'))), w'))
     | Panic x -> (((Panic x), (Cache (c, p'))), w'))
  | Prefix (pfx, p0) ->
    let newend =
      match en with
      | Some e -> Some (app pfx e)
      | None -> prefix_end_bytes pfx
    in
    let (p1, w') = s_iter p0 (app pfx st) newend asc w in
    let (r, p') = p1 in
    (match r with
     | Ok ip ->
       if it_valid ip
       then let (r0, w'') = it_key ip w' in
            (match r0 with
             | Ok k ->
               (((Ok (IPrefix (pfx, (has_prefix pfx k), ip))), (Prefix (pfx,
                 p'))), w'')
             | Panic x -> (((Panic x), (Prefix (pfx, p'))), w''))
       else (((Ok (IPrefix (pfx, false, ip))), (Prefix (pfx, p'))), w')
     | Panic x -> (((Panic x), (Prefix (pfx, p'))), w'))
  | Gas p0 ->
    let (p1, w') = s_iter p0 st en asc w in
    let (r, p') = p1 in
    (match r with
     | Ok ip ->
       if it_valid ip
       then let (r0, w'') = seek_gas ip w' in
            (match r0 with
             | Ok _ -> (((Ok (IGas ip)), (Gas p')), w'')
             | Panic x -> (((Panic x), (Gas p')), w''))
       else (((Ok (IGas ip)), (Gas p')), w')
     | Panic x -> (((Panic x), (Gas p')), w'))
  | Trace p0 ->
    let (p1, w') = s_iter p0 st en asc w in
    let (r, p') = p1 in
    (((match r with
       | Ok ip -> Ok (ITrace ip)
       | Panic x -> Panic x), (Trace p')), w')

(** val write_entries :
    centry amap -> store -> world -> (unit res * store) * world **)

let rec write_entries es p0 w =
  match es with
  | [] -> (((Ok ()), p0), w)
  | p1 :: r ->
    let (k, e) = p1 in
    if e.ce_dirty
    then let (p2, w1) =
           if e.ce_deleted
           then s_delete p0 k w
           else (match e.ce_val with
                 | Some v -> s_set p0 k v w
                 | None -> (((Ok ()), p0), w))
         in
         let (res1, p3) = p2 in
         (match res1 with
          | Ok _ -> write_entries r p3 w1
          | Panic x -> (((Panic x), p3), w1))
    else write_entries r p0 w

(** val c_write : store -> world -> (unit res * store) * world **)

let c_write s w =
  match s with
  | Cache (c, p0) ->
    let (p1, w') = write_entries c.c_cache p0 w in
    let (r, p') = p1 in
    (match r with
     | Ok _ -> (((Ok ()), (Cache (c_empty, p'))), w')
     | Panic x -> (((Panic x), (Cache (c, p'))), w'))
  | _ -> (((Ok ()), s), w)

(** val at_depth :
    nat -> (store -> world -> ('a1 res * store) * world) -> store -> world ->
    ('a1 res * store) * world **)

let rec at_depth d f s w =
  match d with
  | O -> f s w
  | S d' ->
    (match s with
     | Base _ -> f s w
     | Cache (c, p0) ->
       let (p1, w') = at_depth d' f p0 w in
       let (r, p') = p1 in ((r, (Cache (c, p'))), w')
     | Prefix (pfx, p0) ->
       let (p1, w') = at_depth d' f p0 w in
       let (r, p') = p1 in ((r, (Prefix (pfx, p'))), w')
     | Gas p0 ->
       let (p1, w') = at_depth d' f p0 w in
       let (r, p') = p1 in ((r, (Gas p')), w')
     | Trace p0 ->
       let (p1, w') = at_depth d' f p0 w in
       let (r, p') = p1 in ((r, (Trace p')), w'))

(** val it_collect :
    nat -> iter0 -> world -> (bytes * bytes) list -> (bytes * bytes) list
    res * world **)

let rec it_collect fuel it w acc =
  match fuel with
  | O -> ((Panic POther), w)
  | S f ->
    if it_valid it
    then let (r, w1) = it_key it w in
         (match r with
          | Ok k ->
            let (r0, w2) = it_value it w1 in
            (match r0 with
             | Ok v ->
               let (p0, w3) = it_next it w2 in
               let (r1, it') = p0 in
               (match r1 with
                | Ok _ -> it_collect f it' w3 ((k, v) :: acc)
                | Panic x -> ((Panic x), w3))
             | Panic x -> ((Panic x), w2))
          | Panic x -> ((Panic x), w1))
    else ((Ok (rev acc)), w)

(** val it_size : iter0 -> nat **)

let rec it_size = function
| IList l -> length l
| IPrefix (_, _, i) -> it_size i
| IGas i -> it_size i
| ITrace i -> it_size i

(** val s_iter_all :
    store -> bytes -> bytes option -> bool -> world -> ((bytes * bytes) list
    res * store) * world **)

let s_iter_all s st en asc w =
  let (p0, w') = s_iter s st en asc w in
  let (r, s') = p0 in
  (match r with
   | Ok it ->
     let (r0, w'') = it_collect (S (it_size it)) it w' [] in ((r0, s'), w'')
   | Panic x -> (((Panic x), s'), w'))

(** val kv_gas_config : gascfg **)

let kv_gas_config =
  { g_has = (Npos (XO (XO (XO (XI (XO (XI (XI (XI (XI XH))))))))));
    g_delete = (Npos (XO (XO (XO (XI (XO (XI (XI (XI (XI XH))))))))));
    g_read_flat = (Npos (XO (XO (XO (XI (XO (XI (XI (XI (XI XH))))))))));
    g_read_byte = (Npos (XI XH)); g_write_flat = (Npos (XO (XO (XO (XO (XI
    (XO (XI (XI (XI (XI XH))))))))))); g_write_byte = (Npos (XO (XI (XI (XI
    XH))))); g_iter_flat = (Npos (XO (XI (XI (XI XH))))) }
