
val negb : bool -> bool

type nat =
| O
| S of nat

val fst : ('a1 * 'a2) -> 'a1

val snd : ('a1 * 'a2) -> 'a2

val length : 'a1 list -> nat

val app : 'a1 list -> 'a1 list -> 'a1 list

type comparison =
| Eq
| Lt
| Gt

val compOpp : comparison -> comparison

val add : nat -> nat -> nat

val sub : nat -> nat -> nat

module Nat :
 sig
  val eqb : nat -> nat -> bool

  val leb : nat -> nat -> bool

  val ltb : nat -> nat -> bool

  val div2 : nat -> nat
 end

val nth : nat -> 'a1 list -> 'a1 -> 'a1

val nth_error : 'a1 list -> nat -> 'a1 option

val rev : 'a1 list -> 'a1 list

val map : ('a1 -> 'a2) -> 'a1 list -> 'a2 list

val flat_map : ('a1 -> 'a2 list) -> 'a1 list -> 'a2 list

val fold_left : ('a1 -> 'a2 -> 'a1) -> 'a2 list -> 'a1 -> 'a1

val fold_right : ('a2 -> 'a1 -> 'a1) -> 'a1 -> 'a2 list -> 'a1

val existsb : ('a1 -> bool) -> 'a1 list -> bool

val forallb : ('a1 -> bool) -> 'a1 list -> bool

val filter : ('a1 -> bool) -> 'a1 list -> 'a1 list

val find : ('a1 -> bool) -> 'a1 list -> 'a1 option

val firstn : nat -> 'a1 list -> 'a1 list

val skipn : nat -> 'a1 list -> 'a1 list

val repeat : 'a1 -> nat -> 'a1 list

type positive =
| XI of positive
| XO of positive
| XH

type n =
| N0
| Npos of positive

type z =
| Z0
| Zpos of positive
| Zneg of positive

module Pos :
 sig
  type mask =
  | IsNul
  | IsPos of positive
  | IsNeg
 end

module Coq_Pos :
 sig
  val succ : positive -> positive

  val add : positive -> positive -> positive

  val add_carry : positive -> positive -> positive

  val pred_double : positive -> positive

  type mask = Pos.mask =
  | IsNul
  | IsPos of positive
  | IsNeg

  val succ_double_mask : mask -> mask

  val double_mask : mask -> mask

  val double_pred_mask : positive -> mask

  val sub_mask : positive -> positive -> mask

  val sub_mask_carry : positive -> positive -> mask

  val mul : positive -> positive -> positive

  val iter : ('a1 -> 'a1) -> 'a1 -> positive -> 'a1

  val size : positive -> positive

  val compare_cont : comparison -> positive -> positive -> comparison

  val compare : positive -> positive -> comparison

  val eqb : positive -> positive -> bool

  val iter_op : ('a1 -> 'a1 -> 'a1) -> positive -> 'a1 -> 'a1

  val to_nat : positive -> nat

  val of_succ_nat : nat -> positive
 end

module N :
 sig
  val succ_double : n -> n

  val double : n -> n

  val add : n -> n -> n

  val sub : n -> n -> n

  val mul : n -> n -> n

  val compare : n -> n -> comparison

  val eqb : n -> n -> bool

  val leb : n -> n -> bool

  val ltb : n -> n -> bool

  val pos_div_eucl : positive -> n -> n * n

  val div_eucl : n -> n -> n * n

  val modulo : n -> n -> n

  val of_nat : nat -> n
 end

module Z :
 sig
  val double : z -> z

  val succ_double : z -> z

  val pred_double : z -> z

  val pos_sub : positive -> positive -> z

  val add : z -> z -> z

  val opp : z -> z

  val sub : z -> z -> z

  val mul : z -> z -> z

  val pow_pos : z -> positive -> z

  val pow : z -> z -> z

  val compare : z -> z -> comparison

  val leb : z -> z -> bool

  val ltb : z -> z -> bool

  val geb : z -> z -> bool

  val gtb : z -> z -> bool

  val eqb : z -> z -> bool

  val max : z -> z -> z

  val min : z -> z -> z

  val abs : z -> z

  val to_nat : z -> nat

  val to_N : z -> n

  val of_nat : nat -> z

  val of_N : n -> z

  val pos_div_eucl : positive -> z -> z * z

  val div_eucl : z -> z -> z * z

  val div : z -> z -> z

  val modulo : z -> z -> z

  val quotrem : z -> z -> z * z

  val quot : z -> z -> z

  val rem : z -> z -> z

  val even : z -> bool

  val log2 : z -> z
 end

type byte = n

type bytes = byte list

val bcompare : bytes -> bytes -> comparison

val bltb : bytes -> bytes -> bool

val bleb : bytes -> bytes -> bool

val beqb : bytes -> bytes -> bool

val has_prefix : bytes -> bytes -> bool

val bitlen : z -> z

val max_bit_len : z

val int_ok : z -> bool

val int_chk : z -> z option

val int_new_from_big : z -> z option

val int_add : z -> z -> z option

val int_sub : z -> z -> z option

val int_mul : z -> z -> z option

val int_quo : z -> z -> z option

val euclid_mod : z -> z -> z

val int_mod : z -> z -> z option

val int_neg : z -> z

val int_min : z -> z -> z

val int_max : z -> z -> z

val is_int64 : z -> bool

val int_int64 : z -> z option

val uint_ok : z -> bool

val uint_chk : z -> z option

val uint_add : z -> z -> z option

val uint_sub : z -> z -> z option

val uint_mul : z -> z -> z option

val uint_quo : z -> z -> z option

val is_uint64 : z -> bool

val uint_uint64 : z -> z option

val int_unmarshal : z -> z option

val uint_unmarshal : z -> z option

val power_reduction : z

val tokens_to_power : z -> z option

val tokens_from_power : z -> z option

val in_uint_b : z -> bool

val p : z

val five_precision : z

val dec_bits : z

val dec_ok : z -> bool

val dec_chk : z -> z option

val chop_round_pos : z -> z

val chop_round : z -> z

val chop_trunc : z -> z

val chop_round_up : z -> z

val dec_add : z -> z -> z option

val dec_sub : z -> z -> z option

val dec_mul : z -> z -> z option

val dec_mul_truncate : z -> z -> z option

val dec_mul_int : z -> z -> z option

val dec_quo : z -> z -> z option

val dec_quo_truncate : z -> z -> z option

val dec_quo_round_up : z -> z -> z option

val dec_quo_int : z -> z -> z option

val dec_is_integer : z -> bool

val dec_round_int64 : z -> z option

val dec_round_int : z -> z option

val dec_truncate_int64 : z -> z option

val dec_truncate_int : z -> z option

val dec_truncate_dec : z -> z

val dec_ceil : z -> z

val dec_from_int : z -> z

val round_half_even : z -> z -> z

val ceil_div : z -> z -> z

val spec_quo : z -> z -> z

val spec_quo_round_up : z -> z -> z

val spec_quo_truncate : z -> z -> z

val spec_mul : z -> z -> z

type coin = bytes * z

type coins = coin list

val is_lower : n -> bool

val is_digit : n -> bool

val valid_denom : bytes -> bool

val remove_zero : coins -> coins

val safe_add : coins -> coins -> coins option

val negative : coins -> coins

val is_any_negative : coins -> bool

val safe_sub : coins -> coins -> (coins * bool) option

val coins_sub : coins -> coins -> coins option

val valid_tail : bytes -> coins -> bool

val coins_valid : coins -> bool

val amount_of_fuel : nat -> coins -> bytes -> z

val amount_of : coins -> bytes -> z option

val ao : coins -> bytes -> z

val is_all_gte : coins -> coins -> bool

val denoms_subset_of : coins -> coins -> bool

val is_all_gt : coins -> coins -> bool

val is_any_gte : coins -> coins -> bool

val coins_is_zero : coins -> bool

val coins_equal : coins -> coins -> bool option

val insert_coin : coin -> coins -> coins

val sort_coins : coins -> coins

val has_dup : coins -> bool

val new_coins : coins -> coins option

type 'v amap = (bytes * 'v) list

val aget : 'a1 amap -> bytes -> 'a1 option

val aset : 'a1 amap -> bytes -> 'a1 -> 'a1 amap

val adel : 'a1 amap -> bytes -> 'a1 amap

type kv = bytes amap

val in_domain : bytes -> bytes -> bytes option -> bool

val dir : bool -> 'a1 list -> 'a1 list

val kv_range : 'a1 amap -> bytes -> bytes option -> bool -> (bytes * 'a1) list

val prefix_end_rev : bytes -> bytes option

val prefix_end_bytes : bytes -> bytes option

val inclusive_end_bytes : bytes -> bytes

val max_u64 : n

type gascfg = { g_has : n; g_delete : n; g_read_flat : n; g_read_byte : 
                n; g_write_flat : n; g_write_byte : n; g_iter_flat : 
                n }

type pkind =
| POutOfGas
| PGasOverflow
| PInvalidIter
| POther

type 'a res =
| Ok of 'a
| Panic of pkind

type tline = (n * bytes) * bytes

type world = { w_limit : n option; w_consumed : n; w_trace : tline list;
               w_cfg : gascfg }

val set_consumed : world -> n -> world

val log : world -> tline -> world

val consume : n -> world -> unit res * world

val mul64 : n -> n -> n

val blen : bytes -> n

val olen : bytes option -> n

type centry = { ce_val : bytes option; ce_deleted : bool; ce_dirty : bool }

type mem_item = bytes * bytes option

type cstate = { c_cache : centry amap; c_unsorted : unit amap;
                c_sorted : mem_item list }

val c_empty : cstate

val set_cache_value :
  cstate -> bytes -> bytes option -> bool -> bool -> cstate

val merge_dirty : mem_item list -> mem_item list -> mem_item list

val cache_val : cstate -> bytes -> bytes option

val dirty_items : cstate -> bytes -> bytes option -> cstate

val mem_scan : bool -> bytes -> bytes option -> mem_item list -> mem_item list

val mem_items : cstate -> bytes -> bytes option -> bool -> mem_item list

val cmp : bool -> bytes -> bytes -> comparison

type miter = { mi_par : (bytes * bytes) list; mi_cac : mem_item list;
               mi_asc : bool }

val mk_miter : (bytes * bytes) list -> mem_item list -> bool -> miter

val skip_cache_deletes :
  bool -> bytes option -> mem_item list -> mem_item list

val skip_until : nat -> miter -> (miter * bool) option

val m_current : miter -> (bytes * bytes option) option

val m_next : miter -> miter

val m_collect : nat -> miter -> (bytes * bytes) list option

val merge_run :
  (bytes * bytes) list -> mem_item list -> bool -> (bytes * bytes) list option

type store =
| Base of kv
| Cache of cstate * store
| Prefix of bytes * store
| Gas of store
| Trace of store

type iter0 =
| IList of (bytes * bytes) list
| IPrefix of bytes * bool * iter0
| IGas of iter0
| ITrace of iter0

val strip : bytes -> bytes -> bytes

val bind :
  ('a1 res * world) -> ('a1 -> world -> 'a2 res * world) -> 'a2 res * world

val it_valid : iter0 -> bool

val it_key : iter0 -> world -> bytes res * world

val it_value : iter0 -> world -> bytes res * world

val seek_gas : iter0 -> world -> unit res * world

val it_next : iter0 -> world -> (unit res * iter0) * world

val drain : iter0 -> (bytes * bytes) list

val s_get : store -> bytes -> world -> (bytes option res * store) * world

val s_has : store -> bytes -> world -> (bool res * store) * world

val s_set : store -> bytes -> bytes -> world -> (unit res * store) * world

val s_delete : store -> bytes -> world -> (unit res * store) * world

val s_iter :
  store -> bytes -> bytes option -> bool -> world -> (iter0
  res * store) * world

val write_entries :
  centry amap -> store -> world -> (unit res * store) * world

val c_write : store -> world -> (unit res * store) * world

val at_depth :
  nat -> (store -> world -> ('a1 res * store) * world) -> store -> world ->
  ('a1 res * store) * world

val it_collect :
  nat -> iter0 -> world -> (bytes * bytes) list -> (bytes * bytes) list
  res * world

val it_size : iter0 -> nat

val s_iter_all :
  store -> bytes -> bytes option -> bool -> world -> ((bytes * bytes) list
  res * store) * world

val kv_gas_config : gascfg

val vget : (z * 'a1) list -> z -> 'a1 option

val vset : (z * 'a1) list -> z -> 'a1 -> (z * 'a1) list

val vdel : (z * 'a1) list -> z -> (z * 'a1) list

val vmax : (z * 'a1) list -> z

val vhas : (z * 'a1) list -> z -> bool

val kv_eqb : kv -> kv -> bool

type tree = { t_disk : (z * kv) list; t_work : kv; t_ver : z }

val tree_empty : tree

val save_version : tree -> tree option

type dres =
| DelOk of tree
| DelMissing
| DelLatest

val delete_version : tree -> z -> dres

val load_version : (z * kv) list -> z -> tree option

type prune = { keep_recent : z; keep_every : z }

val to_release : prune -> z -> z option

val store_commit : prune -> tree -> (tree * tree list) option

type hash = kv

type cinfo = (bytes * (z * hash)) list

type mstore = { ms_trees : (bytes * tree) list; ms_infos : (z * cinfo) list;
                ms_latest : z; ms_last : (z * cinfo); ms_prune : prune;
                ms_transient : (bytes * kv) list }

val insert_info : (bytes * (z * hash)) -> cinfo -> cinfo

val sort_infos : cinfo -> cinfo

val commit_trees :
  prune -> (bytes * tree) list -> nat option -> ((((bytes * tree)
  list * cinfo) * nat option) * bool) option

val commit : mstore -> nat option -> (mstore * bool) option

val load_trees :
  (bytes * tree) list -> cinfo option -> (bytes * tree) list option

val load_ms : mstore -> z -> mstore option

val reopen : mstore -> mstore option

val upd_tree :
  (bytes * tree) list -> bytes -> (kv -> kv) -> (bytes * tree) list

val ms_set : mstore -> bytes -> bytes -> bytes -> mstore

val ms_delete : mstore -> bytes -> bytes -> mstore

val ms_tset : mstore -> bytes -> bytes -> bytes -> mstore

val ms_set_pruning : mstore -> prune -> mstore

type qres =
| QValue of bytes option
| QNoVersion
| QNoStore

val ms_query : mstore -> bytes -> bytes -> z -> qres

val pick : (bytes * tree) list -> bytes -> (bytes * tree) list

val reorder : (bytes * tree) list -> bytes list -> (bytes * tree) list

val restore : bytes list -> (bytes * tree) list -> (bytes * tree) list

val commit_in_order :
  mstore -> bytes list -> nat option -> (mstore * bool) option

val ms_init : bytes list -> prune -> mstore

type pkey =
| PK of n
| PMulti of pkey list

type sg =
| SPlain of n * n
| SMulti of sg list
| SGarbage

val verify : pkey -> n -> sg -> bool

type armor = n * bytes

val unarmor : armor -> bytes -> n option

val addr_of : n -> bytes

type kb = armor amap

type kres =
| KOk
| KErr
| KSig of sg
| KArmor of armor

type kop =
| KCreate of n * bytes
| KImport of armor * bytes * bytes
| KUpdate of bytes * bytes * bytes
| KDelete of bytes * bytes
| KSign of bytes * bytes * n
| KExport of bytes * bytes * bytes

val kstep : kb -> kop -> kb * kres

val be_bytes : nat -> z -> bytes

val le_bytes : nat -> z -> bytes

val inv_bytes : bytes -> bytes

val power_of : z -> z

val rank_key : z -> bytes -> bytes

val missed_key : bytes -> z -> bytes

val time_key : z -> bytes

type validator = { v_pk : bytes; v_jailed : bool; v_status : n; v_tokens : 
                   z; v_unstime : z }

type signinfo = { si_start : z; si_offset : z; si_jailed_until : z;
                  si_tomb : bool; si_missed : z }

type pparams = { p_unstaking_time : z; p_max_validators : z; p_min_stake : 
                 z; p_max_evidence_age : z; p_window : z; p_min_signed : 
                 z; p_downtime_jail : z; p_slash_ds : z; p_slash_dt : 
                 z }

type aparams = { a_max_memo : z; a_sig_limit : z; a_fee_default : z;
                 a_fee_multis : (bytes * z) list }

type modaddrs = { m_fee : bytes; m_pool : bytes; m_pos : bytes; m_dao : bytes }

type state = { accts : z amap; supply : z; vals : validator amap;
               powidx : bytes amap; prevpow : z amap; prevtotal : z;
               unstq : bytes list amap; sinfo : signinfo amap;
               missed : bool amap; awards : z amap; burns : z amap;
               proposer : bytes option; pkrel : bytes amap; pp : pparams;
               ap : aparams; ma : modaddrs; acl : (bytes * bytes) list;
               dao_owner : bytes; params_raw : bytes amap; height : z;
               btime : z; haspk : bytes amap }

val set_bank : state -> z amap -> z -> state

val set_vals : state -> validator amap -> state

val set_powidx : state -> bytes amap -> state

val set_prev : state -> z amap -> z -> state

val set_unstq : state -> bytes list amap -> state

val set_sign : state -> signinfo amap -> bool amap -> state

val set_queues : state -> z amap -> z amap -> state

val set_misc : state -> bytes option -> bytes amap -> state

val set_params :
  state -> pparams -> aparams -> (bytes * bytes) list -> bytes -> bytes amap
  -> state

val set_block : state -> z -> z -> state

val bal : state -> bytes -> z

val bank_send : state -> bytes -> bytes -> z -> state option

val bank_mint : state -> bytes -> z -> state option

val bank_burn : state -> bytes -> z -> state option

val get_val : state -> bytes -> validator option

val put_val : state -> bytes -> validator -> state

val with_tokens : validator -> z -> validator

val with_status : validator -> n -> validator

val with_jailed : validator -> bool -> validator

val with_unstime : validator -> z -> validator

val set_staked : state -> bytes -> validator -> state

val del_staked : state -> bytes -> validator -> state

val burn_staked : state -> z -> state option

val del_unstaking : state -> bytes -> validator -> state

val force_unstake : state -> bytes -> validator -> state option

type sres =
| SOk of state
| SErr of state
| SPanic

val slash : state -> bytes -> z -> z -> z -> sres

val jail : state -> bytes -> state option

val unjail : state -> bytes -> state option

val min_signed_per_window : pparams -> z

val handle_signature : state -> bytes -> z -> bool -> state option

val double_sign_jail_end : z

val handle_double_sign : state -> bytes -> z -> z -> z -> state option

val reward_from_fees : state -> bytes -> state option

val mint_award : state -> bytes -> z -> state

val mint_awards : state -> state

val burn_validators_loop : (bytes * z) list -> state -> state option

type vote = { vo_addr : bytes; vo_power : z; vo_signed : bool }

type evid = { ev_addr : bytes; ev_height : z; ev_time : z; ev_power : z }

val fold_opt :
  (state -> 'a1 -> state option) -> 'a1 list -> state -> state option

val begin_block :
  state -> z -> z -> bytes -> vote list -> evid list -> state option

type update = bytes * z

val upd_loop :
  (bytes * bytes) list -> nat -> state -> z amap -> z -> update list ->
  (((state * z amap) * z) * update list) option

val update_tm_validators : state -> (state * update list) option

val finish_unstaking : state -> bytes -> validator -> state option

val unstake_one : state -> bytes -> state option

val unstake_mature : state -> state option

val end_block : state -> (state * update list) option

type pval =
| PVpos of n * z
| PVauth of n * z
| PVaddr of bytes
| PVacl of (bytes * bytes) list
| PVfees of z * (bytes * z) list
| PVraw

type msg =
| MStake of bytes * bytes * z
| MUnstake of bytes
| MUnjail of bytes
| MSend of bytes * bytes * z
| MChangeParam of bytes * bytes * pval * bytes * bool
| MDao of bytes * bytes * z * n
| MUpgrade of bytes * z * bytes

val msg_signer : msg -> bytes

val msg_type : msg -> n

val msg_base_fee : z -> msg -> z

val msg_basic_ok : msg -> bool

type hres =
| HOk of state
| HErr of state

val owner_of : (bytes * bytes) list -> bytes -> bytes

val apply_param : state -> bytes -> pval -> bytes -> state

val handle : state -> msg -> hres

type tx = { t_msg : msg; t_fee : z; t_memo_len : z;
            t_attached : bytes option; t_multi_count : z;
            t_signed_by : bytes; t_mutated : bool; t_sig_empty : bool;
            t_in_index : bool; t_gov_fee : z }

val required_fee : state -> z -> msg -> z

type dres0 =
| DOk of state
| DRejected of state
| DHandlerErr of state

val ante : state -> tx -> state option

val deliver_tx : state -> tx -> dres0

val k_award : state -> bytes -> z -> state

val k_burn : state -> bytes -> z -> state

val genesis_validator : state -> ((bytes * bytes) * z) -> state

val init_chain :
  state -> ((bytes * bytes) * z) list -> z -> (state * update list) option

val ed25519_key : bytes -> bool

val refused_key : bool -> state -> msg -> bool

val deliver_tx_cp : bool -> state -> tx -> dres0

val uvarint_enc : nat -> z -> bytes

val uvarint : z -> bytes

val uvarint_dec : nat -> bytes -> z -> z -> z -> (z * bytes) option

val uvarint_decode : bytes -> (z * bytes) option

val frame : bytes -> bytes

val unframe : bytes -> (bytes * bytes) option

val digits : nat -> z -> bytes

type tfields = { t_year : z; t_month : z; t_day : z; t_hour : z; t_min : 
                 z; t_sec : z; t_nano : z }

val time_text : tfields -> bytes

type json =
| JNull
| JBool of bool
| JStr of bytes
| JArr of json list
| JObj of (bytes * json) list

val canon : json -> json

val hexd : z -> n

val esc : n -> bytes

val quote : bytes -> bytes

val render : json -> bytes

val sort_json : json -> bytes

val sign_doc : bytes -> bytes -> bytes -> json -> json -> json

val sign_bytes : bytes -> bytes -> bytes -> json -> json -> bytes

val udigits : nat -> z -> bytes

val big_text : z -> bytes

val zeros : nat -> bytes

val dec_to_text : z -> bytes

val is_digit0 : n -> bool

val dvalue : z -> bytes -> z option

val split_dot : bytes -> bytes -> bytes list

val text_to_dec : bytes -> z option
