(* C12 / C13 / C14 / C01 on the L2 model: what a substore commit does to the set of versions on
   disk, that an interrupted commit can always be reopened at the old version when
   keepRecent >= 1 (and NOT when it is 0), that committed versions are immutable while they are
   retained, and that the commit hash does not depend on the order Go's map iteration happens
   to commit the substores in. *)
From Coq Require Import List ZArith NArith Bool Lia Permutation.
From PM Require Import Base.Bytes Store.KV Store.MergeProofs Store.KVProofs Store.RootMulti.
Import ListNotations.
Local Open Scope Z_scope.

(* ---------- version maps ---------- *)
Lemma vget_vset_same {V} (m : list (Z * V)) v x : vget (vset m v x) v = Some x.
Proof.
  induction m as [|[v0 y] r IH]; simpl; [rewrite Z.eqb_refl; auto|].
  destruct (Z.eqb_spec v v0) as [->|N]; simpl; [rewrite Z.eqb_refl; auto|].
  destruct (Z.ltb_spec v v0); simpl; [rewrite Z.eqb_refl; auto|].
  destruct (Z.eqb_spec v v0); [contradiction|auto].
Qed.
Lemma vget_vset_other {V} (m : list (Z * V)) v x u : u <> v -> vget (vset m v x) u = vget m u.
Proof.
  intros Hne. induction m as [|[v0 y] r IH]; simpl.
  - destruct (Z.eqb_spec u v); [contradiction|auto].
  - destruct (Z.eqb_spec v v0) as [->|N]; simpl.
    + destruct (Z.eqb_spec u v0); [contradiction|auto].
    + destruct (Z.ltb_spec v v0); simpl.
      * destruct (Z.eqb_spec u v); [contradiction|auto].
      * destruct (Z.eqb_spec u v0); auto.
Qed.
Lemma vget_vdel_other {V} (m : list (Z * V)) v u : u <> v -> vget (vdel m v) u = vget m u.
Proof.
  intros Hne. unfold vdel. induction m as [|[v0 y] r IH]; simpl; auto.
  destruct (Z.eqb_spec v0 v) as [->|N]; simpl.
  - destruct (Z.eqb_spec u v); [contradiction|auto].
  - destruct (Z.eqb_spec u v0); auto.
Qed.
Lemma vget_vdel_same {V} (m : list (Z * V)) v : vget (vdel m v) v = None.
Proof.
  unfold vdel. induction m as [|[v0 y] r IH]; simpl; auto.
  destruct (Z.eqb_spec v0 v) as [->|N]; simpl; auto.
  destruct (Z.eqb_spec v v0); [congruence|auto].
Qed.

(* ---------- one substore ---------- *)
(* the loaded version is on disk with the content the working tree started from *)
Definition tree_ok (t : tree) (old : kv) : Prop := vget (t_disk t) (t_ver t) = Some old.

Lemma save_version_spec t t1 : save_version t = Some t1 ->
  t_ver t1 = t_ver t + 1 /\ t_work t1 = t_work t /\
  (forall u, u <> t_ver t + 1 -> vget (t_disk t1) u = vget (t_disk t) u) /\
  (exists c, vget (t_disk t1) (t_ver t + 1) = Some c /\ kv_eqb c (t_work t) = true \/ vget (t_disk t1) (t_ver t + 1) = Some (t_work t)).
Proof.
  unfold save_version. destruct (vget (t_disk t) (t_ver t + 1)) as [c|] eqn:E.
  - destruct (kv_eqb c (t_work t)) eqn:K; [|discriminate]. intros [= <-]. simpl. repeat split; auto.
    exists c. left; auto.
  - intros [= <-]. simpl. repeat split; auto.
    + intros u Hu. apply vget_vset_other; auto.
    + exists (t_work t). right. apply vget_vset_same.
Qed.

Lemma delete_version_ok t r t2 : delete_version t r = DelOk t2 ->
  t_disk t2 = vdel (t_disk t) r /\ t_ver t2 = t_ver t /\ t_work t2 = t_work t.
Proof.
  unfold delete_version. destruct (negb (vhas (t_disk t) r)); [discriminate|].
  destruct (r =? t_ver t); [discriminate|]. intros E. inversion E. simpl. auto.
Qed.
Lemma delete_version_missing t r : delete_version t r = DelMissing -> vget (t_disk t) r = None.
Proof.
  unfold delete_version, vhas. destruct (vget (t_disk t) r); simpl; auto.
  destruct (r =? t_ver t); discriminate.
Qed.
Lemma to_release_lt p v r : to_release p v = Some r -> r = v - 1 - keep_recent p /\ keep_recent p < v - 1.
Proof.
  unfold to_release. destruct (Z.ltb_spec (keep_recent p) (v - 1)); [|discriminate].
  destruct (_ || _); [|discriminate]. intros [= <-]. lia.
Qed.

(* C13, one substore: after ANY prefix of the commit's write units the previous version can
   still be loaded with its old content, as long as at least one recent version is kept *)
Theorem store_commit_crash_safe p t old tf units : 1 <= keep_recent p -> tree_ok t old ->
  store_commit p t = Some (tf, units) ->
  forall u, In u (t :: units) -> load_version (t_disk u) (t_ver t) = (if t_ver t =? 0 then load_version (t_disk u) 0
                                                                       else Some {| t_disk := t_disk u; t_work := old; t_ver := t_ver t |}).
Proof.
  intros Hk Hok. unfold store_commit.
  destruct (save_version t) as [t1|] eqn:Es; [|discriminate].
  destruct (save_version_spec _ _ Es) as (V1 & W1 & D1 & _).
  assert (L : forall u, (forall x, x <> t_ver t + 1 -> x <> t_ver t - keep_recent p -> vget (t_disk u) x = vget (t_disk t) x) ->
              load_version (t_disk u) (t_ver t) = (if t_ver t =? 0 then load_version (t_disk u) 0
                                                   else Some {| t_disk := t_disk u; t_work := old; t_ver := t_ver t |})).
  { intros u Hu. destruct (Z.eqb_spec (t_ver t) 0) as [E0|N0]; [rewrite E0; reflexivity|].
    unfold load_version. destruct (Z.eqb_spec (t_ver t) 0); [contradiction|].
    rewrite Hu by lia. rewrite Hok. reflexivity. }
  destruct (to_release p (t_ver t1)) as [r|] eqn:Er.
  - destruct (to_release_lt _ _ _ Er) as [-> Hlt]. rewrite V1 in *.
    destruct (delete_version t1 (t_ver t + 1 - 1 - keep_recent p)) as [t2| |] eqn:Ed; try discriminate.
    + intros [= <- <-] u [<-|[<-|[<-|[]]]].
      * apply L. auto.
      * apply L. intros x Hx _. apply D1; auto.
      * apply L. intros x Hx Hy. destruct (delete_version_ok _ _ _ Ed) as (Dd & _). rewrite Dd.
        rewrite vget_vdel_other by lia. apply D1; auto.
    + intros [= <- <-] u [<-|[<-|[]]]; apply L; auto; intros x Hx _; apply D1; auto.
  - intros [= <- <-] u [<-|[<-|[]]]; apply L; auto; intros x Hx _; apply D1; auto.
Qed.

(* ... and with keepRecent = 0 it is false: the version the root still points at is deleted before the flush (F8) *)
Theorem store_commit_crash_unsafe_when_keep_recent_0 :
  exists p t old tf units, keep_recent p = 0 /\ tree_ok t old /\ store_commit p t = Some (tf, units) /\
    exists u, In u units /\ load_version (t_disk u) (t_ver t) = None.
Proof.
  exists {| keep_recent := 0; keep_every := 0 |},
         {| t_disk := [(1, [([1]%N, [1]%N)])]; t_work := [([1]%N, [2]%N)]; t_ver := 1 |}, [([1]%N, [1]%N)].
  eexists. eexists. split; [reflexivity|]. split; [reflexivity|]. split; [vm_compute; reflexivity|].
  eexists. split; [right; left; reflexivity|]. vm_compute. reflexivity.
Qed.

(* C12 / C14: a committed version that is neither the new one nor the released one is untouched by a commit *)
Theorem store_commit_keeps_other_versions p t tf units h : store_commit p t = Some (tf, units) ->
  h <> t_ver t + 1 -> to_release p (t_ver t + 1) <> Some h -> vget (t_disk tf) h = vget (t_disk t) h.
Proof.
  unfold store_commit. destruct (save_version t) as [t1|] eqn:Es; [|discriminate].
  destruct (save_version_spec _ _ Es) as (V1 & W1 & D1 & _). rewrite V1.
  intros E Hn Hr. destruct (to_release p (t_ver t + 1)) as [r|] eqn:Er.
  - destruct (delete_version t1 r) as [t2| |] eqn:Ed; try discriminate; injection E as <- _; auto.
    destruct (delete_version_ok _ _ _ Ed) as (Dd & _). rewrite Dd.
    rewrite vget_vdel_other by congruence. auto.
  - injection E as <- _. auto.
Qed.
(* the new version holds exactly the working content; the released one is gone *)
Theorem store_commit_new_version p t tf units : 0 <= keep_recent p -> vget (t_disk t) (t_ver t + 1) = None ->
  store_commit p t = Some (tf, units) ->
  t_ver tf = t_ver t + 1 /\ t_work tf = t_work t /\ vget (t_disk tf) (t_ver t + 1) = Some (t_work t).
Proof.
  intros Hk Hfresh. unfold store_commit, save_version. rewrite Hfresh.
  set (t1 := {| t_disk := vset (t_disk t) (t_ver t + 1) (t_work t); t_work := t_work t; t_ver := t_ver t + 1 |}).
  assert (G : vget (t_disk t1) (t_ver t + 1) = Some (t_work t)) by apply vget_vset_same.
  destruct (to_release p (t_ver t1)) as [r|] eqn:Er.
  - destruct (to_release_lt _ _ _ Er) as [-> Hlt]. simpl in Hlt.
    destruct (delete_version t1 _) as [t2| |] eqn:Ed; try discriminate; intros [= <- _]; auto.
    destruct (delete_version_ok _ _ _ Ed) as (Dd & Dv & Dw). rewrite Dd, Dv, Dw.
    assert (V1 : t_ver t1 = t_ver t + 1) by reflexivity. rewrite V1 in *.
    repeat split; auto. rewrite vget_vdel_other by lia. exact G.
  - intros [= <- _]. auto.
Qed.
Theorem store_commit_released_gone p t tf units r : store_commit p t = Some (tf, units) ->
  to_release p (t_ver t + 1) = Some r -> vget (t_disk tf) r = None.
Proof.
  unfold store_commit. destruct (save_version t) as [t1|] eqn:Es; [|discriminate].
  destruct (save_version_spec _ _ Es) as (V1 & _). rewrite V1. intros E Hr. rewrite Hr in E.
  destruct (delete_version t1 r) as [t2| |] eqn:Ed; try discriminate; injection E as <- _.
  - destruct (delete_version_ok _ _ _ Ed) as (Dd & _). rewrite Dd. apply vget_vdel_same.
  - apply delete_version_missing; auto.
Qed.

(* C14: a query at a height on disk returns the value committed at that height, whatever was
   written to the working tree since *)
Theorem query_reads_committed ms name key h t c : h <> 0 ->
  find (fun p => beqb (fst p) name) (ms_trees ms) = Some (name, t) -> vget (t_disk t) h = Some c ->
  ms_query ms name key h = QValue (aget c key).
Proof.
  intros Hh Ef Ev. unfold ms_query. rewrite Ef. destruct (Z.eqb_spec h 0); [contradiction|]. rewrite Ev. reflexivity.
Qed.
Theorem query_pruned_or_future_returns_nothing ms name key h t : h <> 0 ->
  find (fun p => beqb (fst p) name) (ms_trees ms) = Some (name, t) -> vget (t_disk t) h = None ->
  ms_query ms name key h = QNoVersion.
Proof.
  intros Hh Ef Ev. unfold ms_query. rewrite Ef. destruct (Z.eqb_spec h 0); [contradiction|]. rewrite Ev. reflexivity.
Qed.
Theorem working_writes_do_not_touch_disk ts name f n t : In (n, t) (upd_tree ts name f) ->
  exists t0, In (n, t0) ts /\ t_disk t = t_disk t0 /\ t_ver t = t_ver t0.
Proof.
  induction ts as [|[n0 t0] r IH]; simpl; [tauto|].
  destruct (beqb n0 name).
  - intros [E|H]; [inversion E; subst; exists t0; simpl; auto|exists t; auto].
  - intros [E|H]; [inversion E; subst; exists t; auto|]. destruct (IH H) as (t1 & I1 & D1). exists t1; auto.
Qed.

(* ---------- C01: the commit hash does not depend on the substore commit order ---------- *)
Definition names (l : cinfo) := map fst l.
Fixpoint isorted (l : cinfo) : Prop :=
  match l with [] => True | x :: r => (forall y, In y r -> bcompare (fst x) (fst y) = Lt) /\ isorted r end.
Lemma insert_info_in x l y : In y (insert_info x l) <-> y = x \/ In y l.
Proof.
  induction l as [|z r IH]; simpl; [intuition|].
  destruct (bcompare (fst x) (fst z)); simpl; rewrite ?IH; intuition.
Qed.
Lemma insert_info_sorted x l : isorted l -> (forall y, In y l -> fst y <> fst x) -> isorted (insert_info x l).
Proof.
  induction l as [|z r IH]; simpl; intros S N; [split; [intros y []|auto]|].
  destruct S as [B S]. destruct (bcompare (fst x) (fst z)) eqn:C.
  - apply bcompare_eq in C. exfalso. apply (N z); auto.
  - simpl. split; [|split; auto]. intros y [<-|Hy]; auto. eapply bcompare_lt_trans; eauto.
  - simpl. split.
    + intros y Hy. apply insert_info_in in Hy. destruct Hy as [->|Hy]; auto.
      rewrite bcompare_antisym, C. reflexivity.
    + apply IH; auto.
Qed.
Lemma sort_infos_sorted l : NoDup (names l) -> isorted (sort_infos l) /\ (forall y, In y (sort_infos l) <-> In y l).
Proof.
  induction l as [|x r IH]; simpl; intros ND; [split; [auto|tauto]|].
  inversion ND as [|? ? Hn ND']; subst. destruct (IH ND') as [S I]. split.
  - apply insert_info_sorted; auto. intros y Hy E. apply I in Hy. apply Hn. unfold names. rewrite <- E. apply in_map; auto.
  - intros y. rewrite insert_info_in, I. intuition.
Qed.
Lemma isorted_ext a : forall b, isorted a -> isorted b -> (forall y, In y a <-> In y b) -> a = b.
Proof.
  induction a as [|x a IH]; intros [|y b] Sa Sb E; auto.
  - exfalso. apply (proj2 (E y)). left; auto.
  - exfalso. apply (proj1 (E x)). left; auto.
  - destruct Sa as [Ba Sa], Sb as [Bb Sb].
    assert (x = y).
    { destruct (proj1 (E x) (or_introl eq_refl)) as [->|Hx]; auto.
      destruct (proj2 (E y) (or_introl eq_refl)) as [->|Hy]; auto.
      pose proof (Ba _ Hy) as L1. pose proof (Bb _ Hx) as L2.
      rewrite bcompare_antisym, L1 in L2. discriminate. }
    subst y. f_equal. apply IH; auto. intros z. split; intros Hz.
    + destruct (proj1 (E z) (or_intror Hz)) as [->|]; auto. pose proof (Ba _ Hz) as L. rewrite bcompare_refl in L. discriminate.
    + destruct (proj2 (E z) (or_intror Hz)) as [->|]; auto. pose proof (Bb _ Hz) as L. rewrite bcompare_refl in L. discriminate.
Qed.
Theorem commit_hash_order_independent l l' : Permutation l l' -> NoDup (names l) -> sort_infos l = sort_infos l'.
Proof.
  intros Pm ND. assert (ND' : NoDup (names l')) by (eapply Permutation_NoDup; [apply Permutation_map; exact Pm|exact ND]).
  destruct (sort_infos_sorted l ND) as [S I]. destruct (sort_infos_sorted l' ND') as [S' I'].
  apply isorted_ext; auto. intros y. rewrite I, I'. split; intros H; [eapply Permutation_in; eauto|eapply Permutation_in; [apply Permutation_sym; eauto|auto]].
Qed.
