(* C15/C16: sorted-map lemmas, the cache store as an overlay (Get/Has/Set/Delete/Write refine
   the plain sorted map), PrefixEndBytes, gas accounting. *)
From Coq Require Import List NArith Bool Lia.
From PM Require Import Base.Bytes Store.KV Store.MergeProofs.
Import ListNotations.
Local Open Scope N_scope.

(* ---------- sorted association lists ---------- *)
Notation asorted := (dsorted true).
Lemma cmp_true a b : cmp true a b = bcompare a b. Proof. reflexivity. Qed.

Section AMapLemmas.
  Context {V : Type}.
  Implicit Types m : amap V.
  Lemma aget_below m k : below true k m -> aget m k = None.
  Proof.
    destruct m as [|[k0 v0] r]; simpl; auto. intros B.
    pose proof (B (k0, v0) (or_introl eq_refl)) as L. simpl in L. rewrite L. reflexivity.
  Qed.
  Lemma aset_sorted m k v : asorted m -> asorted (aset m k v) /\
    (forall d, bcompare d k = Lt -> below true d m -> below true d (aset m k v)).
  Proof.
    induction m as [|[k0 v0] r IH]; simpl.
    - intros _. split; [split; [intros y []|auto]|]. intros d L _ y [<-|[]]; auto.
    - intros [B S]. destruct (bcompare k k0) eqn:C.
      + apply bcompare_eq in C; subst k0. split; [split; auto|].
        intros d L Bd y [<-|Hy]; auto. apply Bd; right; auto.
      + split.
        * split; [|split; auto]. intros y [<-|Hy]; auto.
          eapply (cmp_lt_trans true); [exact C|apply B; auto].
        * intros d L Bd y [<-|Hy]; auto.
      + destruct (IH S) as [S' B']. apply bcompare_gt_lt in C. split.
        * split; auto. apply B'; auto.
        * intros d L Bd y [<-|Hy]; [apply (Bd (k0, v0)); left; auto|].
          apply B'; auto. intros z Hz. apply Bd; right; auto.
  Qed.
  Lemma aget_aset m k v k' : asorted m ->
    aget (aset m k v) k' = if beqb k k' then Some v else aget m k'.
  Proof.
    induction m as [|[k0 v0] r IH]; simpl; intros S.
    - unfold beqb. rewrite (bcompare_antisym k' k). destruct (bcompare k' k); auto.
    - destruct S as [B S]. destruct (bcompare k k0) eqn:C.
      + apply bcompare_eq in C; subst k0. simpl. unfold beqb. rewrite (bcompare_antisym k' k).
        destruct (bcompare k' k); auto.
      + simpl. unfold beqb. rewrite (bcompare_antisym k' k). destruct (bcompare k' k) eqn:C2; simpl; auto.
        * (* k' < k < k0 *)
          rewrite (bcompare_lt_trans _ _ _ C2 C). reflexivity.
      + simpl. destruct (bcompare k' k0) eqn:C2.
        * apply bcompare_eq in C2; subst k'. unfold beqb. rewrite C. reflexivity.
        * (* k' < k0 < k *)
          apply bcompare_gt_lt in C. unfold beqb.
          assert (L : bcompare k' k = Lt) by (eapply bcompare_lt_trans; eauto).
          apply bcompare_gt_lt in L. rewrite L. reflexivity.
        * apply IH; auto.
  Qed.
  Lemma adel_sorted m k : asorted m -> asorted (adel m k) /\ (forall d, below true d m -> below true d (adel m k)).
  Proof.
    induction m as [|[k0 v0] r IH]; simpl; auto. intros [B S].
    destruct (bcompare k k0) eqn:C.
    - split; auto. intros d Bd y Hy. apply Bd; right; auto.
    - split; [split; auto|auto].
    - destruct (IH S) as [S' B']. split; [split; auto; apply (B' k0); exact B|].
      intros d Bd y [<-|Hy]; [apply Bd; left; auto|]. apply B'; auto. intros z Hz; apply Bd; right; auto.
  Qed.
  Lemma aget_adel m k k' : asorted m -> aget (adel m k) k' = if beqb k k' then None else aget m k'.
  Proof.
    induction m as [|[k0 v0] r IH]; simpl; intros S.
    - destruct (beqb k k'); auto.
    - destruct S as [B S]. destruct (bcompare k k0) eqn:C.
      + apply bcompare_eq in C; subst k0. destruct (beqb k k') eqn:E.
        * apply beqb_eq in E; subst. apply aget_below; auto.
        * destruct (bcompare k' k) eqn:C2; auto.
          -- apply bcompare_eq in C2; subst. rewrite beqb_refl' in E; discriminate.
          -- apply aget_below. intros y Hy. eapply (cmp_lt_trans true); [exact C2|apply B; auto].
      + simpl. destruct (beqb k k') eqn:E; auto. apply beqb_eq in E; subst. rewrite C. reflexivity.
      + simpl. destruct (bcompare k' k0) eqn:C2.
        * apply bcompare_eq in C2; subst. unfold beqb. rewrite C. reflexivity.
        * apply bcompare_gt_lt in C. unfold beqb.
          assert (L : bcompare k' k = Lt) by (eapply bcompare_lt_trans; eauto).
          apply bcompare_gt_lt in L. rewrite L. reflexivity.
        * apply IH; auto.
  Qed.
  Lemma amap_ext (a b : amap V) : asorted a -> asorted b -> (forall k, aget a k = aget b k) -> a = b.
  Proof.
    revert b; induction a as [|[ka va] a IH]; intros [|[kb vb] b] Sa Sb E; auto.
    - specialize (E kb). simpl in E. rewrite bcompare_refl in E. discriminate.
    - specialize (E ka). simpl in E. rewrite bcompare_refl in E. discriminate.
    - destruct Sa as [Ba Sa], Sb as [Bb Sb].
      assert (ka = kb) as ->.
      { destruct (bcompare ka kb) eqn:C; [apply bcompare_eq; auto|exfalso|exfalso].
        - specialize (E ka). simpl in E. rewrite bcompare_refl, C in E. discriminate.
        - specialize (E kb). simpl in E. rewrite bcompare_refl in E. apply bcompare_gt_lt in C. rewrite C in E. discriminate. }
      pose proof (E kb) as E0. simpl in E0. rewrite bcompare_refl in E0. injection E0 as ->.
      f_equal. apply IH; auto. intros k. specialize (E k). simpl in E.
      destruct (bcompare k kb) eqn:C; auto.
      + apply bcompare_eq in C; subst. rewrite !aget_below; auto.
      + rewrite !aget_below; auto; intros y Hy; (eapply (cmp_lt_trans true); [exact C|]);
          first [apply Ba; assumption|apply Bb; assumption].
  Qed.
End AMapLemmas.

(* ---------- the cache store is an overlay ---------- *)
(* what Write does to a plain map *)
Fixpoint apply_entries (es : amap centry) (m : kv) : kv :=
  match es with
  | [] => m
  | (k, e) :: r =>
    if ce_dirty e then
      if ce_deleted e then apply_entries r (adel m k)
      else match ce_val e with None => apply_entries r m | Some v => apply_entries r (aset m k v) end
    else apply_entries r m
  end.
(* what a reader of the cache store sees at key k *)
Definition view (c : cstate) (m : kv) (k : bytes) : option bytes :=
  match aget (c_cache c) k with Some e => ce_val e | None => aget m k end.
(* the cache invariant w.r.t. the parent's content [m] *)
Definition entry_ok (m : kv) (k : bytes) (e : centry) : Prop :=
  (ce_dirty e = false -> ce_val e = aget m k /\ ce_deleted e = false) /\
  (ce_deleted e = true -> ce_val e = None) /\
  (ce_dirty e = true -> ce_deleted e = false -> ce_val e <> None).
Definition cache_ok (c : cstate) (m : kv) : Prop :=
  asorted (c_cache c) /\ forall k e, aget (c_cache c) k = Some e -> entry_ok m k e.

Lemma apply_entries_sorted es : forall m, asorted m -> asorted (apply_entries es m).
Proof.
  induction es as [|[k e] r IH]; simpl; auto. intros m S.
  destruct (ce_dirty e); auto. destruct (ce_deleted e).
  - apply IH. apply adel_sorted; auto.
  - destruct (ce_val e); auto. apply IH. apply aset_sorted; auto.
Qed.
Lemma apply_entries_get es : forall m k, asorted es -> asorted m ->
  (forall k e, aget es k = Some e -> ce_deleted e = true -> ce_val e = None) ->
  aget (apply_entries es m) k =
  match aget es k with
  | Some e => if ce_dirty e then (if ce_deleted e then None else match ce_val e with Some v => Some v | None => aget m k end)
              else aget m k
  | None => aget m k
  end.
Proof.
  induction es as [|[k0 e] r IH]; simpl; auto. intros m k [B S] Sm D.
  assert (D' : forall k e, aget r k = Some e -> ce_deleted e = true -> ce_val e = None).
  { intros k1 e1 H1. apply (D k1). destruct (bcompare k1 k0) eqn:C; auto.
    - apply bcompare_eq in C; subst. rewrite aget_below in H1; [discriminate|auto].
    - rewrite aget_below in H1; [discriminate|]. intros y Hy. eapply (cmp_lt_trans true); [exact C|apply B; auto]. }
  assert (R : forall m', asorted m' -> (bcompare k k0 = Eq \/ bcompare k k0 = Lt) ->
              aget (apply_entries r m') k = aget m' k).
  { intros m' Sm' Hc. rewrite IH by auto. rewrite aget_below; auto.
    destruct Hc as [Hc|Hc]; [apply bcompare_eq in Hc; subst; auto|].
    intros y Hy. eapply (cmp_lt_trans true); [exact Hc|apply B; auto]. }
  destruct (ce_dirty e) eqn:Dy.
  - destruct (ce_deleted e) eqn:Dl.
    + destruct (bcompare k k0) eqn:C.
      * rewrite R by (auto; apply adel_sorted; auto). apply bcompare_eq in C; subst.
        rewrite aget_adel by auto. rewrite beqb_refl', ?Dy, ?Dl. reflexivity.
      * rewrite R by (auto; apply adel_sorted; auto). rewrite aget_adel by auto.
        destruct (beqb k0 k) eqn:E; auto. apply beqb_eq in E; subst. rewrite bcompare_refl in C; discriminate.
      * rewrite IH by (auto; apply adel_sorted; auto). rewrite aget_adel by auto.
        destruct (beqb k0 k) eqn:E; [apply beqb_eq in E; subst; rewrite bcompare_refl in C; discriminate|].
        reflexivity.
    + destruct (ce_val e) as [v|] eqn:Ev.
      * destruct (bcompare k k0) eqn:C.
        -- rewrite R by (auto; apply aset_sorted; auto). apply bcompare_eq in C; subst.
           rewrite aget_aset by auto. rewrite beqb_refl', ?Dy, ?Dl, ?Ev. reflexivity.
        -- rewrite R by (auto; apply aset_sorted; auto). rewrite aget_aset by auto.
           destruct (beqb k0 k) eqn:E; auto. apply beqb_eq in E; subst. rewrite bcompare_refl in C; discriminate.
        -- rewrite IH by (auto; apply aset_sorted; auto). rewrite aget_aset by auto.
           destruct (beqb k0 k) eqn:E; [apply beqb_eq in E; subst; rewrite bcompare_refl in C; discriminate|].
           reflexivity.
      * destruct (bcompare k k0) eqn:C; [rewrite R by auto; rewrite ?Dy, ?Dl, ?Ev; reflexivity|rewrite R by auto; reflexivity|apply IH; auto].
  - destruct (bcompare k k0) eqn:C; [rewrite R by auto; rewrite ?Dy; reflexivity|rewrite R by auto; reflexivity|apply IH; auto].
Qed.

(* C15: the logical content of a cache store over a parent with content m *)
Definition cache_abs (c : cstate) (m : kv) : kv := apply_entries (c_cache c) m.
Theorem cache_abs_view c m k : cache_ok c m -> asorted m -> aget (cache_abs c m) k = view c m k.
Proof.
  intros [S OK] Sm. unfold cache_abs, view. rewrite apply_entries_get; auto.
  - destruct (aget (c_cache c) k) as [e|] eqn:E; auto.
    destruct (OK k e E) as (Cl & Dl & Nn). destruct (ce_dirty e).
    + destruct (ce_deleted e); [rewrite Dl; auto|]. destruct (ce_val e); auto.
      exfalso; apply Nn; auto.
    + destruct (Cl eq_refl) as [-> _]. reflexivity.
  - intros k0 e E. apply (OK k0 e E).
Qed.
Lemma cache_abs_sorted c m : asorted m -> asorted (cache_abs c m).
Proof. apply apply_entries_sorted. Qed.

(* nests of cache stores over a MemDB-backed base *)
Fixpoint abs (s : store) : kv :=
  match s with
  | Base m => m
  | Cache c p => cache_abs c (abs p)
  | Prefix _ p => abs p | Gas p => abs p | Trace p => abs p
  end.
Fixpoint nest_ok (s : store) : Prop :=
  match s with
  | Base m => asorted m
  | Cache c p => nest_ok p /\ cache_ok c (abs p)
  | _ => False
  end.
Lemma abs_sorted s : nest_ok s -> asorted (abs s).
Proof. induction s; simpl; try tauto. intros [N _]. apply cache_abs_sorted; auto. Qed.

Lemma set_cache_value_ok c m k v del dirty :
  cache_ok c m -> entry_ok m k {| ce_val := v; ce_deleted := del; ce_dirty := dirty |} ->
  cache_ok (set_cache_value c k v del dirty) m.
Proof.
  intros [S OK] EO. split; simpl.
  - apply aset_sorted; auto.
  - intros k' e'. rewrite aget_aset by auto. destruct (beqb k k') eqn:E.
    + apply beqb_eq in E; subst. intros [= <-]. auto.
    + apply OK.
Qed.
Lemma view_set_cache_value c m k v del dirty k' : asorted (c_cache c) ->
  view (set_cache_value c k v del dirty) m k' = if beqb k k' then v else view c m k'.
Proof.
  intros S. unfold view. simpl. rewrite aget_aset by auto. destruct (beqb k k'); auto.
Qed.

(* C15: Get on a nest returns the overlay view and changes nothing observable *)
Theorem get_refines s : forall k w, nest_ok s ->
  exists s', s_get s k w = (Ok (aget (abs s) k), s', w) /\ nest_ok s' /\ abs s' = abs s.
Proof.
  induction s as [m|c p IH|? ? _|? _|? _]; intros k w N; simpl in N; try contradiction.
  - exists (Base m). simpl. auto.
  - destruct N as [Np OK]. simpl s_get.
    pose proof (cache_abs_view c (abs p) k OK (abs_sorted p Np)) as V. unfold view in V.
    destruct (aget (c_cache c) k) as [e|] eqn:E.
    + exists (Cache c p). simpl. rewrite V. split; [reflexivity|split; [split; assumption|reflexivity]].
    + destruct (IH k w Np) as (p' & Eg & Np' & Ap). rewrite Eg.
      exists (Cache (set_cache_value c k (aget (abs p) k) false false) p').
      simpl abs. rewrite V. split; auto. rewrite Ap.
      assert (OK' : cache_ok (set_cache_value c k (aget (abs p) k) false false) (abs p)).
      { apply set_cache_value_ok; auto. repeat split; simpl; auto; discriminate. }
      split; [simpl; rewrite Ap; auto|].
      apply amap_ext; try (apply cache_abs_sorted, abs_sorted; auto).
      intros k'. rewrite !cache_abs_view by (auto; apply abs_sorted; auto).
      rewrite view_set_cache_value by apply OK. destruct (beqb k k') eqn:Ek; auto.
      apply beqb_eq in Ek; subst. unfold view. rewrite E. reflexivity.
Qed.

(* C15: Set / Delete act on the view like the plain map operation and leave the parent alone *)
Theorem set_refines s : forall k v w, nest_ok s ->
  exists s', s_set s k v w = (Ok tt, s', w) /\ nest_ok s' /\ abs s' = aset (abs s) k v /\
    match s, s' with Cache _ p, Cache _ p' => p' = p | _, _ => True end.
Proof.
  destruct s as [m|c p|? ?|?|?]; intros k v w N; simpl in N; try contradiction.
  - exists (Base (aset m k v)). simpl. repeat split; auto. apply aset_sorted; auto.
  - destruct N as [Np OK]. exists (Cache (set_cache_value c k (Some v) false true) p). simpl s_set.
    assert (OK' : cache_ok (set_cache_value c k (Some v) false true) (abs p)).
    { apply set_cache_value_ok; auto. repeat split; simpl; auto; discriminate. }
    split; auto. split; [simpl; auto|]. split; auto. simpl abs.
    apply amap_ext; [apply cache_abs_sorted, abs_sorted; auto|apply aset_sorted, cache_abs_sorted, abs_sorted; auto|].
    intros k'. rewrite aget_aset by (apply cache_abs_sorted, abs_sorted; auto).
    rewrite !cache_abs_view by (auto; apply abs_sorted; auto).
    apply view_set_cache_value. apply OK.
Qed.
Theorem delete_refines s : forall k w, nest_ok s ->
  exists s', s_delete s k w = (Ok tt, s', w) /\ nest_ok s' /\ abs s' = adel (abs s) k /\
    match s, s' with Cache _ p, Cache _ p' => p' = p | _, _ => True end.
Proof.
  destruct s as [m|c p|? ?|?|?]; intros k w N; simpl in N; try contradiction.
  - exists (Base (adel m k)). simpl. repeat split; auto. apply adel_sorted; auto.
  - destruct N as [Np OK]. exists (Cache (set_cache_value c k None true true) p). simpl s_delete.
    assert (OK' : cache_ok (set_cache_value c k None true true) (abs p)).
    { apply set_cache_value_ok; auto. repeat split; simpl; auto; discriminate. }
    split; auto. split; [simpl; auto|]. split; auto. simpl abs.
    apply amap_ext; [apply cache_abs_sorted, abs_sorted; auto|apply adel_sorted, cache_abs_sorted, abs_sorted; auto|].
    intros k'. rewrite aget_adel by (apply cache_abs_sorted, abs_sorted; auto).
    rewrite !cache_abs_view by (auto; apply abs_sorted; auto).
    apply view_set_cache_value. apply OK.
Qed.

(* C15: Write makes the parent hold exactly the overlaid view and leaves the wrapper clean *)
Lemma write_entries_refines es : forall p w, nest_ok p ->
  exists p', write_entries es p w = (Ok tt, p', w) /\ nest_ok p' /\ abs p' = apply_entries es (abs p).
Proof.
  induction es as [|[k e] r IH]; intros p w N; simpl.
  - exists p; auto.
  - destruct (ce_dirty e); [|apply IH; auto]. destruct (ce_deleted e).
    + destruct (delete_refines p k w N) as (p1 & E1 & N1 & A1 & _). rewrite E1.
      destruct (IH p1 w N1) as (p2 & E2 & N2 & A2). exists p2. rewrite E2, A2, A1. auto.
    + destruct (ce_val e) as [v|]; [|apply IH; auto].
      destruct (set_refines p k v w N) as (p1 & E1 & N1 & A1 & _). rewrite E1.
      destruct (IH p1 w N1) as (p2 & E2 & N2 & A2). exists p2. rewrite E2, A2, A1. auto.
Qed.
Theorem write_refines c p w : nest_ok (Cache c p) ->
  exists p', c_write (Cache c p) w = (Ok tt, Cache c_empty p', w) /\ nest_ok (Cache c_empty p') /\
    abs p' = abs (Cache c p) /\ abs (Cache c_empty p') = abs (Cache c p).
Proof.
  intros [Np OK]. destruct (write_entries_refines (c_cache c) p w Np) as (p' & E & N' & A).
  exists p'. simpl c_write. rewrite E. split; auto. split.
  - simpl. split; auto. split; [simpl; auto|]. intros k e H; discriminate.
  - split; auto.
Qed.
(* discarding a wrapper (dropping it without Write) leaves the parent as it was: immediate,
   the parent component is only ever changed by c_write *)
Theorem discard_no_effect c p k v w s' : s_set (Cache c p) k v w = (Ok tt, s', w) ->
  exists c', s' = Cache c' p.
Proof. simpl. intros [= <-]. eauto. Qed.

(* ---------- PrefixEndBytes (C16) ---------- *)
Lemma prefix_end_rev_spec r : Forall (fun x => x < 256) r ->
  match prefix_end_rev r with
  | None => Forall (fun x => x = 255) r
  | Some e => exists ffs x r', r = ffs ++ x :: r' /\ Forall (fun y => y = 255) ffs /\ x < 255 /\ e = (x + 1) :: r'
  end.
Proof.
  induction 1 as [|x r Hx Hr IH]; simpl; [constructor|].
  destruct (N.eqb_spec x 255) as [->|Hn].
  - destruct (prefix_end_rev r) as [e|].
    + destruct IH as (ffs & y & r' & -> & F & L & ->). exists (255 :: ffs), y, r'. repeat split; auto.
    + constructor; auto.
  - exists [], x, r. repeat split; auto. lia.
Qed.

(* ---------- gas (C16) ---------- *)
Definition gas_ok (w : world) : Prop := w_consumed w <= max_u64.
(* ConsumeGas on a meter: exact sum, out-of-gas exactly when the total crosses the limit,
   overflow reported (never wrapped) *)
Theorem consume_spec amount w : gas_ok w -> amount <= max_u64 ->
  let total := w_consumed w + amount in
  match consume amount w with
  | (Ok _, w') => total <= max_u64 /\ w_consumed w' = total /\
                  match w_limit w with Some lim => total <= lim | None => True end
  | (Panic POutOfGas, w') => total <= max_u64 /\ w_consumed w' = total /\
                  exists lim, w_limit w = Some lim /\ lim < total
  | (Panic PGasOverflow, w') => max_u64 < total
  | (Panic _, _) => False
  end.
Proof.
  intros G A. unfold gas_ok in G. unfold consume. cbv zeta.
  destruct (N.ltb_spec (max_u64 - w_consumed w) amount) as [H|H].
  - lia.
  - destruct (w_limit w) as [lim|] eqn:L; simpl.
    + destruct (N.ltb_spec lim (w_consumed w + amount)); simpl; repeat split; try lia. exists lim; split; [reflexivity|lia].
    + repeat split; lia.
Qed.
Lemma consume_trace amount w : w_trace (snd (consume amount w)) = w_trace w /\ w_limit (snd (consume amount w)) = w_limit w.
Proof.
  unfold consume. destruct (max_u64 - w_consumed w <? amount); [simpl; auto|].
  destruct (w_limit w) as [lim|] eqn:L; [|simpl; auto].
  destruct (lim <? w_consumed w + amount); simpl; auto.
Qed.

(* ---------- PrefixEndBytes as a key-range bound (C16) ---------- *)
Local Arguments N.compare : simpl never.
Local Arguments N.eqb : simpl never.
Local Arguments N.add : simpl never.
Lemma bcompare_app q a b : bcompare (q ++ a) (q ++ b) = bcompare a b.
Proof. induction q as [|x q IH]; simpl; auto. rewrite N.compare_refl. auto. Qed.
Lemma has_prefix_app_same q p k : has_prefix (q ++ p) (q ++ k) = has_prefix p k.
Proof. induction q as [|x q IH]; simpl; auto. rewrite N.eqb_refl. auto. Qed.

(* an all-0xFF prefix: k >= ffs  <->  k starts with ffs (bytes are <= 255) *)
Lemma ff_prefix ffs : Forall (fun y => y = 255) ffs -> forall k, wf_bytes k ->
  (has_prefix ffs k = true <-> bleb ffs k = true).
Proof.
  induction 1 as [|x ffs Hx _ IH]; intros k Wk.
  - simpl. unfold bleb. destruct k; simpl; tauto.
  - subst x. destruct k as [|y k]; [unfold bleb; simpl; split; discriminate|].
    inversion Wk as [|? ? Hy Wk']; subst. simpl has_prefix. unfold bleb. simpl bcompare.
    destruct (N.eqb_spec 255 y) as [<-|Hn].
    + rewrite N.compare_refl. simpl. apply IH; auto.
    + simpl. destruct (N.compare_spec 255 y); try lia; split; discriminate || auto.
Qed.

Lemma bleb_bltb a b : bleb a b = negb (bltb b a).
Proof. unfold bleb, bltb. rewrite (bcompare_antisym a b). destruct (bcompare a b); reflexivity. Qed.

(* with an end: p = q ++ x :: ffs, end = q ++ [x+1] *)
Lemma prefix_range q x ffs k : x < 255 -> Forall (fun y => y = 255) ffs -> wf_bytes k ->
  (has_prefix (q ++ x :: ffs) k = true <->
   bleb (q ++ x :: ffs) k = true /\ bltb k (q ++ [x + 1]) = true).
Proof.
  intros Hx Hf Wk. revert k Wk. induction q as [|z q IH]; intros k Wk.
  - simpl app. destruct k as [|y k].
    + simpl. unfold bleb; simpl. split; [discriminate|intros [H _]; discriminate].
    + inversion Wk as [|? ? Hy Wk']; subst. simpl has_prefix. unfold bleb, bltb. simpl bcompare.
      destruct (N.eqb_spec x y) as [<-|Hn].
      * rewrite N.compare_refl. simpl. destruct (N.compare_spec x (x + 1)); try lia.
        pose proof (ff_prefix ffs Hf k Wk') as F. unfold bleb in F. rewrite F. tauto.
      * simpl. destruct (N.compare_spec x y); try lia.
        (* x < y: k >= p but k >= end *)
           destruct (N.compare_spec y (x + 1)) as [E|L|G]; try lia;
             try (split; [discriminate|intros [_ H']; discriminate]).
           destruct k; simpl; split; try discriminate; intros [_ H']; discriminate.
  - destruct k as [|y k].
    + simpl. unfold bleb; simpl. split; [discriminate|intros [H _]; discriminate].
    + inversion Wk as [|? ? Hy Wk']; subst. simpl app. simpl has_prefix. unfold bleb, bltb. simpl bcompare.
      destruct (N.eqb_spec z y) as [<-|Hn].
      * rewrite N.compare_refl. simpl. specialize (IH k Wk'). unfold bleb, bltb in IH. exact IH.
      * simpl. destruct (N.compare_spec z y); try lia.
        rewrite (N.compare_antisym z y). destruct (N.compare_spec z y); try lia. simpl.
        split; [discriminate|intros [_ H']; discriminate].
Qed.

(* C16: the keys a prefix store can reach are exactly [prefix, PrefixEndBytes(prefix)) *)
Theorem prefix_end_bytes_spec p k : p <> [] -> wf_bytes p -> wf_bytes k ->
  (has_prefix p k = true <->
   bleb p k = true /\ match prefix_end_bytes p with None => True | Some e => bltb k e = true end).
Proof.
  intros Hne Wp Wk. unfold prefix_end_bytes. destruct p as [|p0 p']; [contradiction|].
  set (p := p0 :: p') in *.
  assert (Wr : Forall (fun x => x < 256) (rev p)) by (apply Forall_rev; exact Wp).
  pose proof (prefix_end_rev_spec (rev p) Wr) as Sp.
  destruct (prefix_end_rev (rev p)) as [e|].
  - destruct Sp as (ffs & x & r' & Er & F & L & ->).
    assert (Ep : p = rev r' ++ x :: rev ffs).
    { rewrite <- (rev_involutive p), Er, rev_app_distr. simpl. rewrite <- app_assoc. reflexivity. }
    rewrite Ep. simpl rev. apply prefix_range; auto. apply Forall_rev; auto.
  - assert (F : Forall (fun y => y = 255) p).
    { rewrite <- (rev_involutive p). apply Forall_rev; auto. }
    rewrite (ff_prefix p F k Wk). tauto.
Qed.

(* ---------- gas/trace wrappers are transparent (C16) ---------- *)
Definition free_world (w : world) : Prop := w_limit w = None /\ w_consumed w + 1000000000000 <= max_u64.
(* on a meter that does not run out, a gas store returns exactly what the wrapped store returns *)
Theorem gas_get_transparent p k w r p' w' :
  s_get (Gas p) k w = (Ok r, p', w') ->
  exists w1 p1 w2, consume (g_read_flat (w_cfg w)) w = (Ok tt, w1) /\ s_get p k w1 = (Ok r, p1, w2) /\ p' = Gas p1.
Proof.
  simpl. destruct (consume (g_read_flat (w_cfg w)) w) as [[[]|x] w1] eqn:E1; [|discriminate].
  destruct (s_get p k w1) as [[[v|x] p1] w2] eqn:E2; [|discriminate].
  destruct (consume _ w2) as [[[]|x] w3] eqn:E3; [|discriminate].
  intros [= <- <- <-]. eauto 10.
Qed.
Theorem trace_get_logs p k w r p' w' :
  s_get (Trace p) k w = (Ok r, p', w') ->
  exists p1 w1, s_get p k w = (Ok r, p1, w1) /\ p' = Trace p1 /\
    w_trace w' = (1, k, match r with Some x => x | None => [] end) :: w_trace w1.
Proof.
  simpl. destruct (s_get p k w) as [[[v|x] p1] w1] eqn:E; [|discriminate].
  intros [= <- <- <-]. exists p1, w1. auto.
Qed.
