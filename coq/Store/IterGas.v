(* C16: gas charged by iterating a gas store (gaskv.gasIterator over an effect-free parent iterator).
   newGasIterator charges the seek cost of the first item when it is created (s_iter, Gas case) and Next charges
   the seek cost of the CURRENT item before it advances, so a complete  for ; Valid(); Next() { Key(); Value() }
   loop over the items l charges, after creation, exactly the sum over l of
   ReadCostPerByte * len(value) + IterNextCostFlat; it returns exactly l; and when that total would cross the
   limit the loop stops with out-of-gas at the step whose charge crosses it (never later, never earlier). *)
From Coq Require Import List NArith Bool Lia.
From PM Require Import Base.Bytes Store.KV.
Import ListNotations.
Local Open Scope N_scope.

Definition step_cost (cfg : gascfg) (kv : bytes * bytes) : N :=
  mul64 (g_read_byte cfg) (blen (snd kv)) + g_iter_flat cfg.
Fixpoint iter_cost (cfg : gascfg) (l : list (bytes * bytes)) : N :=
  match l with [] => 0 | kv :: r => step_cost cfg kv + iter_cost cfg r end.

Definition within (w : world) (c : N) : Prop :=
  c <= max_u64 /\ match w_limit w with Some lim => c <= lim | None => True end.

Lemma consume_within a w : within w (w_consumed w + a) ->
  consume a w = (Ok tt, set_consumed w (w_consumed w + a)).
Proof.
  intros [Hm Hl]. unfold consume.
  destruct (N.ltb_spec (max_u64 - w_consumed w) a) as [H|H]; [lia|].
  destruct (w_limit w) as [lim|]; [|reflexivity].
  destruct (N.ltb_spec lim (w_consumed w + a)) as [H2|H2]; [lia|reflexivity].
Qed.

Lemma within_le w a b : a <= b -> within w b -> within w a.
Proof. unfold within. intros Hab [H1 H2]. split; [lia|]. destruct (w_limit w); [lia|exact I]. Qed.

Lemma within_set w c d : within (set_consumed w c) d <-> within w d.
Proof. unfold within; simpl. tauto. Qed.

(* one seek charge on a list iterator *)
Lemma seek_gas_list k v r w : within w (w_consumed w + step_cost (w_cfg w) (k, v)) ->
  seek_gas (IList ((k, v) :: r)) w =
  (Ok tt, set_consumed w (w_consumed w + step_cost (w_cfg w) (k, v))).
Proof.
  intros Hw. unfold seek_gas, step_cost in *. cbn [it_value bind snd] in *.
  rewrite consume_within
    by (eapply within_le; [|exact Hw]; lia).
  cbn [bind]. rewrite consume_within.
  - cbn [set_consumed w_consumed w_limit w_trace w_cfg]. f_equal.
    unfold set_consumed; cbn. f_equal. lia.
  - apply within_set. cbn [set_consumed w_consumed w_cfg].
    eapply within_le; [|exact Hw]. lia.
Qed.

Lemma collect_step f k v r w acc w1 : seek_gas (IList ((k, v) :: r)) w = (Ok tt, w1) ->
  it_collect (S f) (IGas (IList ((k, v) :: r))) w acc = it_collect f (IGas (IList r)) w1 ((k, v) :: acc).
Proof. intros H. cbn [it_collect it_valid it_key it_value it_next]. rewrite H. reflexivity. Qed.
Lemma collect_panic f k v r w acc p w1 : seek_gas (IList ((k, v) :: r)) w = (Panic p, w1) ->
  it_collect (S f) (IGas (IList ((k, v) :: r))) w acc = (Panic p, w1).
Proof. intros H. cbn [it_collect it_valid it_key it_value it_next]. rewrite H. reflexivity. Qed.

(* the loop: exact result and exact total *)
Theorem gas_iteration_exact l : forall w acc,
  within w (w_consumed w + iter_cost (w_cfg w) l) ->
  it_collect (S (length l)) (IGas (IList l)) w acc =
  (Ok (rev acc ++ l), set_consumed w (w_consumed w + iter_cost (w_cfg w) l)).
Proof.
  induction l as [|[k v] r IH]; intros w acc Hw.
  - cbn. rewrite app_nil_r, N.add_0_r. destruct w; reflexivity.
  - cbn [length].
    assert (Hs : within w (w_consumed w + step_cost (w_cfg w) (k, v))).
    { eapply within_le; [|exact Hw]. cbn [iter_cost]. lia. }
    rewrite (collect_step _ k v r w acc _ (seek_gas_list k v r w Hs)).
    set (w1 := set_consumed w (w_consumed w + step_cost (w_cfg w) (k, v))).
    rewrite (IH w1 ((k, v) :: acc)).
    + subst w1. cbn [set_consumed w_consumed w_cfg w_limit w_trace rev iter_cost].
      rewrite <- app_assoc. cbn [app]. f_equal. unfold set_consumed; cbn. f_equal. lia.
    + subst w1. apply within_set. cbn [set_consumed w_consumed w_cfg].
      eapply within_le; [|exact Hw]. cbn [iter_cost]. lia.
Qed.

(* out-of-gas exactly at the crossing step: the items before it are charged in full, the step whose flat or
   per-byte charge takes the total over the limit panics, and the total reported is the crossing one *)
Theorem gas_iteration_out_of_gas l1 k v l2 w acc lim :
  w_limit w = Some lim ->
  w_consumed w + iter_cost (w_cfg w) l1 <= lim ->
  lim < w_consumed w + iter_cost (w_cfg w) l1 + step_cost (w_cfg w) (k, v) ->
  w_consumed w + iter_cost (w_cfg w) l1 + step_cost (w_cfg w) (k, v) <= max_u64 ->
  exists w', it_collect (S (length (l1 ++ (k, v) :: l2))) (IGas (IList (l1 ++ (k, v) :: l2))) w acc
             = (Panic POutOfGas, w') /\
             lim < w_consumed w' /\
             w_consumed w' <= w_consumed w + iter_cost (w_cfg w) l1 + step_cost (w_cfg w) (k, v).
Proof.
  revert w acc. induction l1 as [|[k1 v1] r IH]; intros w acc Hlim Hle Hcross Hmax.
  - cbn [app length iter_cost] in *. rewrite N.add_0_r in *.
    assert (exists w', seek_gas (IList ((k, v) :: l2)) w = (Panic POutOfGas, w') /\ lim < w_consumed w' /\
                       w_consumed w' <= w_consumed w + step_cost (w_cfg w) (k, v)) as [w' [E G]];
      [|exists w'; split; [exact (collect_panic _ k v l2 w acc _ _ E)|exact G]].
    unfold seek_gas, step_cost in *. cbn [it_value bind snd] in *.
    unfold consume at 1.
    destruct (N.ltb_spec (max_u64 - w_consumed w) (mul64 (g_read_byte (w_cfg w)) (blen v))) as [H|H]; [lia|].
    rewrite Hlim.
    destruct (N.ltb_spec lim (w_consumed w + mul64 (g_read_byte (w_cfg w)) (blen v))) as [H2|H2].
    + cbn [bind]. eexists; split; [reflexivity|]. cbn [set_consumed w_consumed]. lia.
    + cbn [bind]. unfold consume. cbn [set_consumed w_consumed w_limit w_cfg].
      destruct (N.ltb_spec (max_u64 - (w_consumed w + mul64 (g_read_byte (w_cfg w)) (blen v)))
                           (g_iter_flat (w_cfg w))) as [H3|H3]; [lia|].
      rewrite Hlim.
      destruct (N.ltb_spec lim (w_consumed w + mul64 (g_read_byte (w_cfg w)) (blen v) + g_iter_flat (w_cfg w)))
        as [H4|H4]; [|lia].
      eexists; split; [reflexivity|]. cbn [set_consumed w_consumed]. lia.
  - cbn [app length].
    cbn [iter_cost] in Hle, Hcross, Hmax.
    assert (Hs : within w (w_consumed w + step_cost (w_cfg w) (k1, v1))).
    { unfold within. rewrite Hlim. split; lia. }
    rewrite (collect_step _ k1 v1 _ w acc _ (seek_gas_list k1 v1 _ w Hs)).
    set (w1 := set_consumed w (w_consumed w + step_cost (w_cfg w) (k1, v1))).
    destruct (IH w1 ((k1, v1) :: acc)) as [w' [E [G1 G2]]];
      try (subst w1; cbn [set_consumed w_consumed w_cfg w_limit]; first [exact Hlim | lia]).
    exists w'. split; [exact E|]. subst w1. cbn [set_consumed w_consumed w_cfg] in G2. cbn [iter_cost]. split; [exact G1|lia].
Qed.

(* the whole operation on a gas store over a map: Iterator/ReverseIterator + the complete loop returns exactly
   the in-range items in iteration order and charges the first item's step once more at creation *)
Definition head_cost (cfg : gascfg) (l : list (bytes * bytes)) : N :=
  match l with [] => 0 | kv :: _ => step_cost cfg kv end.
Theorem gas_store_iteration_exact m st en asc w :
  let l := kv_range m st en asc in
  within w (w_consumed w + head_cost (w_cfg w) l + iter_cost (w_cfg w) l) ->
  s_iter_all (Gas (Base m)) st en asc w =
  (Ok l, Gas (Base m), set_consumed w (w_consumed w + head_cost (w_cfg w) l + iter_cost (w_cfg w) l)).
Proof.
  intros l Hw. unfold s_iter_all. cbn [s_iter]. fold l.
  destruct l as [|[k v] r] eqn:El.
  - cbn. rewrite !N.add_0_r. destruct w; reflexivity.
  - cbn [it_valid]. cbn [head_cost] in *.
    assert (Hs : within w (w_consumed w + step_cost (w_cfg w) (k, v))).
    { eapply within_le; [|exact Hw]. lia. }
    rewrite (seek_gas_list k v r w Hs).
    set (w1 := set_consumed w (w_consumed w + step_cost (w_cfg w) (k, v))).
    change (it_size (IGas (IList ((k, v) :: r)))) with (length ((k, v) :: r)).
    rewrite (gas_iteration_exact ((k, v) :: r) w1 []).
    + subst w1. cbn [set_consumed w_consumed w_cfg rev app]. reflexivity.
    + subst w1. apply within_set. cbn [set_consumed w_consumed w_cfg]. exact Hw.
Qed.

(* ---------- traced iteration (tracekv.traceIterator) ---------- *)
(* Key() logs an iterKey line, Value() an iterValue line, Next/Valid nothing: a complete loop over a traced
   iterator returns exactly the items and appends, per item and in order, one iterKey and one iterValue line;
   gas and limit are untouched *)
Definition trace_lines (l : list (bytes * bytes)) : list tline :=
  flat_map (fun kv => [(3, fst kv, []); (4, [], snd kv)]) l.
Theorem trace_iteration_exact l : forall w acc,
  exists w', it_collect (S (length l)) (ITrace (IList l)) w acc = (Ok (rev acc ++ l), w') /\
             w_trace w' = rev (trace_lines l) ++ w_trace w /\
             w_consumed w' = w_consumed w /\ w_limit w' = w_limit w /\ w_cfg w' = w_cfg w.
Proof.
  induction l as [|[k v] r IH]; intros w acc.
  - exists w. cbn. rewrite app_nil_r. repeat split; reflexivity.
  - cbn [length].
    assert (E : forall f, it_collect (S f) (ITrace (IList ((k, v) :: r))) w acc =
                          it_collect f (ITrace (IList r)) (log (log w (3, k, [])) (4, [], v)) ((k, v) :: acc)).
    { intros f. cbn [it_collect it_valid it_key it_value it_next bind]. reflexivity. }
    rewrite E.
    destruct (IH (log (log w (3, k, [])) (4, [], v)) ((k, v) :: acc)) as [w' [H1 [H2 [H3 [H4 H5]]]]].
    exists w'. split; [|split; [|split; [|split]]].
    + rewrite H1. cbn [rev]. rewrite <- app_assoc. reflexivity.
    + rewrite H2. cbn [trace_lines flat_map log w_trace fst snd app rev].
      fold (trace_lines r). rewrite <- !app_assoc. reflexivity.
    + rewrite H3. reflexivity.
    + rewrite H4. reflexivity.
    + rewrite H5. reflexivity.
Qed.
Theorem trace_store_iteration_exact m st en asc w :
  let l := kv_range m st en asc in
  exists w', s_iter_all (Trace (Base m)) st en asc w = (Ok l, Trace (Base m), w') /\
             w_trace w' = rev (trace_lines l) ++ w_trace w /\
             w_consumed w' = w_consumed w /\ w_limit w' = w_limit w /\ w_cfg w' = w_cfg w.
Proof.
  intros l. unfold s_iter_all. cbn [s_iter]. fold l.
  change (it_size (ITrace (IList l))) with (length l).
  destruct (trace_iteration_exact l w []) as [w' [H1 H2]].
  exists w'. rewrite H1. cbn [rev app]. split; [reflexivity|exact H2].
Qed.

(* ---------- gas store over a prefix store: same charges, keys stripped ---------- *)
Definition pv (l : list (bytes * bytes)) : bool := match l with [] => false | _ => true end.
Definition stripped pfx (l : list (bytes * bytes)) := map (fun p => (strip pfx (fst p), snd p)) l.
Definition all_prefixed pfx (l : list (bytes * bytes)) := forall p, In p l -> has_prefix pfx (fst p) = true.

Lemma pcollect_step pfx f k v r w acc w1 : all_prefixed pfx ((k, v) :: r) ->
  seek_gas (IList ((k, v) :: r)) w = (Ok tt, w1) ->
  it_collect (S f) (IGas (IPrefix pfx true (IList ((k, v) :: r)))) w acc =
  it_collect f (IGas (IPrefix pfx (pv r) (IList r))) w1 ((strip pfx k, v) :: acc).
Proof.
  intros Hp H.
  assert (H' : seek_gas (IPrefix pfx true (IList ((k, v) :: r))) w = (Ok tt, w1)) by exact H.
  cbn [it_collect it_valid it_key it_value it_next bind andb].
  cbn [it_valid andb] in H'. rewrite H'.
  destruct r as [|[k2 v2] r2].
  - cbn [it_valid it_next pv]. reflexivity.
  - cbn [it_valid it_next it_key pv].
    assert (Hk : has_prefix pfx k2 = true) by (apply (Hp (k2, v2)); right; left; reflexivity).
    rewrite Hk. reflexivity.
Qed.

Theorem gas_prefix_iteration_exact pfx l : forall w acc, all_prefixed pfx l ->
  within w (w_consumed w + iter_cost (w_cfg w) l) ->
  it_collect (S (length l)) (IGas (IPrefix pfx (pv l) (IList l))) w acc =
  (Ok (rev acc ++ stripped pfx l), set_consumed w (w_consumed w + iter_cost (w_cfg w) l)).
Proof.
  induction l as [|[k v] r IH]; intros w acc Hp Hw.
  - cbn. rewrite app_nil_r, N.add_0_r. destruct w; reflexivity.
  - cbn [length pv].
    assert (Hs : within w (w_consumed w + step_cost (w_cfg w) (k, v))).
    { eapply within_le; [|exact Hw]. cbn [iter_cost]. lia. }
    rewrite (pcollect_step pfx _ k v r w acc _ Hp (seek_gas_list k v r w Hs)).
    set (w1 := set_consumed w (w_consumed w + step_cost (w_cfg w) (k, v))).
    rewrite (IH w1 ((strip pfx k, v) :: acc)).
    + subst w1. cbn [set_consumed w_consumed w_cfg w_limit w_trace rev iter_cost stripped map fst snd].
      rewrite <- app_assoc. cbn [app]. f_equal. unfold set_consumed; cbn. f_equal. lia.
    + intros p Hin. apply Hp. right. exact Hin.
    + subst w1. apply within_set. cbn [set_consumed w_consumed w_cfg].
      eapply within_le; [|exact Hw]. cbn [iter_cost]. lia.
Qed.

From PM Require Import Store.MergeProofs Store.KVProofs Store.DirtyProofs Store.WrapProofs.
Definition prefixed_items pfx (m : list (bytes * bytes)) asc := dir asc (filter (fun p => has_prefix pfx (fst p)) m).
Lemma prefixed_items_all pfx m asc : all_prefixed pfx (prefixed_items pfx m asc).
Proof.
  intros p Hp. unfold prefixed_items, dir in Hp. destruct asc; [|apply in_rev in Hp]; apply filter_In in Hp; tauto.
Qed.
Lemma prefix_iter_shape pfx m asc w : pfx <> [] -> wf_bytes pfx -> (forall k v, In (k, v) m -> wf_bytes k) ->
  let l := prefixed_items pfx m asc in
  s_iter (Prefix pfx (Base m)) [] None asc w = (Ok (IPrefix pfx (pv l) (IList l)), Prefix pfx (Base m), w).
Proof.
  intros Hne Wp Wm l. simpl s_iter. rewrite app_nil_r. unfold kv_range.
  assert (F : filter (fun p : bytes * bytes => in_domain (fst p) pfx (prefix_end_bytes pfx)) m = filter (fun p => has_prefix pfx (fst p)) m).
  { apply filter_ext_in. intros [k v] Hin. apply in_domain_is_prefix; auto. eapply Wm; eauto. }
  rewrite F. fold (prefixed_items pfx m asc). fold l.
  pose proof (prefixed_items_all pfx m asc) as Hl. fold l in Hl.
  destruct l as [|[k x] r] eqn:El.
  - reflexivity.
  - cbn [it_valid it_key pv]. pose proof (Hl (k, x) (or_introl eq_refl)) as Hk. simpl in Hk. rewrite Hk. reflexivity.
Qed.

(* the whole operation on a gas store over a prefix store over a map: the complete loop returns exactly the parent's
   items carrying the prefix, stripped, in iteration order, and charges exactly what the unprefixed items cost
   (values only: key bytes are never charged), the first one once more at creation *)
Theorem gas_prefix_store_iteration_exact pfx m asc w :
  pfx <> [] -> wf_bytes pfx -> (forall k v, In (k, v) m -> wf_bytes k) ->
  let l := prefixed_items pfx m asc in
  within w (w_consumed w + head_cost (w_cfg w) l + iter_cost (w_cfg w) l) ->
  s_iter_all (Gas (Prefix pfx (Base m))) [] None asc w =
  (Ok (stripped pfx l), Gas (Prefix pfx (Base m)),
   set_consumed w (w_consumed w + head_cost (w_cfg w) l + iter_cost (w_cfg w) l)).
Proof.
  intros Hne Wp Wm l Hw. unfold s_iter_all.
  change (s_iter (Gas (Prefix pfx (Base m))) [] None asc w) with
    (match s_iter (Prefix pfx (Base m)) [] None asc w with
     | (Ok ip, p', w') =>
       if it_valid ip then
         match seek_gas ip w' with
         | (Ok _, w'') => (Ok (IGas ip), Gas p', w'')
         | (Panic x, w'') => (Panic x, Gas p', w'')
         end
       else (Ok (IGas ip), Gas p', w')
     | (Panic x, p', w') => (Panic x, Gas p', w')
     end).
  rewrite (prefix_iter_shape pfx m asc w Hne Wp Wm). fold l.
  pose proof (prefixed_items_all pfx m asc) as Hl. fold l in Hl.
  destruct l as [|[k v] r] eqn:El.
  - cbn. rewrite !N.add_0_r. destruct w; reflexivity.
  - cbn [pv it_valid andb]. cbn [head_cost] in *.
    assert (Hs : within w (w_consumed w + step_cost (w_cfg w) (k, v))).
    { eapply within_le; [|exact Hw]. lia. }
    change (seek_gas (IPrefix pfx true (IList ((k, v) :: r))) w) with (seek_gas (IList ((k, v) :: r)) w).
    rewrite (seek_gas_list k v r w Hs).
    set (w1 := set_consumed w (w_consumed w + step_cost (w_cfg w) (k, v))).
    change (it_size (IGas (IPrefix pfx true (IList ((k, v) :: r))))) with (length ((k, v) :: r)).
    change true with (pv ((k, v) :: r)) at 1.
    rewrite (gas_prefix_iteration_exact pfx ((k, v) :: r) w1 [] Hl).
    + subst w1. cbn [set_consumed w_consumed w_cfg rev app]. reflexivity.
    + subst w1. apply within_set. cbn [set_consumed w_consumed w_cfg]. exact Hw.
Qed.
