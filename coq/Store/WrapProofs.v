(* C16: prefix isolation and exact gas, for whole operations.
   - a prefix store over a map reads, writes and deletes exactly the key prefix ++ k and leaves every key without the
     prefix untouched; iterating it (either direction) yields exactly the parent's items with that prefix, stripped;
   - a gas store charges exactly flat + per-byte * length for Get / Set, the flat cost for Has / Delete. *)
From Coq Require Import List NArith Bool Lia.
From PM Require Import Base.Bytes Store.KV Store.MergeProofs Store.KVProofs Store.DirtyProofs.
Import ListNotations.
Local Open Scope N_scope.

(* ---------- gas ---------- *)
Lemma consume_ok a w w' : consume a w = (Ok tt, w') ->
  w_consumed w' = w_consumed w + a /\ w_limit w' = w_limit w /\ w_cfg w' = w_cfg w /\ w_trace w' = w_trace w.
Proof.
  unfold consume. destruct (_ <? a); [discriminate|]. destruct (w_limit w) as [lim|] eqn:L.
  - destruct (lim <? _); [discriminate|]. intros [= <-]. simpl. auto.
  - intros [= <-]. simpl. auto.
Qed.
Theorem gas_set_exact m k v w p' w' : s_set (Gas (Base m)) k v w = (Ok tt, p', w') ->
  p' = Gas (Base (aset m k v)) /\
  w_consumed w' = w_consumed w + g_write_flat (w_cfg w) + mul64 (g_write_byte (w_cfg w)) (blen v).
Proof.
  simpl. destruct (consume (g_write_flat (w_cfg w)) w) as [[[]|x] w1] eqn:E1; [|discriminate].
  destruct (consume_ok _ _ _ E1) as (C1 & _ & F1 & _).
  destruct (consume (mul64 (g_write_byte (w_cfg w1)) (blen v)) w1) as [[[]|x] w2] eqn:E2; [|discriminate].
  destruct (consume_ok _ _ _ E2) as (C2 & _ & _ & _). intros [= <- <-]. split; auto. rewrite C2, C1, F1. reflexivity.
Qed.
Theorem gas_get_exact m k w r p' w' : s_get (Gas (Base m)) k w = (Ok r, p', w') ->
  r = aget m k /\ p' = Gas (Base m) /\
  w_consumed w' = w_consumed w + g_read_flat (w_cfg w) + mul64 (g_read_byte (w_cfg w)) (olen r).
Proof.
  simpl. destruct (consume (g_read_flat (w_cfg w)) w) as [[[]|x] w1] eqn:E1; [|discriminate].
  destruct (consume_ok _ _ _ E1) as (C1 & _ & F1 & _).
  destruct (consume (mul64 (g_read_byte (w_cfg w1)) (olen (aget m k))) w1) as [[[]|x] w2] eqn:E2; [|discriminate].
  destruct (consume_ok _ _ _ E2) as (C2 & _ & _ & _). intros [= <- <- <-]. repeat split; auto. rewrite C2, C1, F1. reflexivity.
Qed.
Theorem gas_delete_exact m k w p' w' : s_delete (Gas (Base m)) k w = (Ok tt, p', w') ->
  p' = Gas (Base (adel m k)) /\ w_consumed w' = w_consumed w + g_delete (w_cfg w).
Proof.
  simpl. destruct (consume (g_delete (w_cfg w)) w) as [[[]|x] w1] eqn:E1; [|discriminate].
  destruct (consume_ok _ _ _ E1) as (C1 & _). intros [= <- <-]. auto.
Qed.
Theorem gas_has_exact m k w r p' w' : s_has (Gas (Base m)) k w = (Ok r, p', w') ->
  r = (match aget m k with Some _ => true | None => false end) /\ p' = Gas (Base m) /\
  w_consumed w' = w_consumed w + g_has (w_cfg w).
Proof.
  simpl. destruct (consume (g_has (w_cfg w)) w) as [[[]|x] w1] eqn:E1; [|discriminate].
  destruct (consume_ok _ _ _ E1) as (C1 & _). intros [= <- <- <-]. auto.
Qed.

(* ---------- prefix isolation ---------- *)
Lemma has_prefix_app_self p k : has_prefix p (p ++ k) = true.
Proof. apply has_prefix_app. exists k; reflexivity. Qed.
Theorem prefix_set_isolated pfx m k v w : asorted m ->
  s_set (Prefix pfx (Base m)) k v w = (Ok tt, Prefix pfx (Base (aset m (pfx ++ k) v)), w) /\
  forall k', has_prefix pfx k' = false -> aget (aset m (pfx ++ k) v) k' = aget m k'.
Proof.
  intros S. split; [reflexivity|]. intros k' N. rewrite aget_aset by auto.
  destruct (beqb (pfx ++ k) k') eqn:B; auto. apply beqb_eq in B. subst k'. rewrite has_prefix_app_self in N. discriminate.
Qed.
Theorem prefix_delete_isolated pfx m k w : asorted m ->
  s_delete (Prefix pfx (Base m)) k w = (Ok tt, Prefix pfx (Base (adel m (pfx ++ k))), w) /\
  forall k', has_prefix pfx k' = false -> aget (adel m (pfx ++ k)) k' = aget m k'.
Proof.
  intros S. split; [reflexivity|]. intros k' N. rewrite aget_adel by auto.
  destruct (beqb (pfx ++ k) k') eqn:B; auto. apply beqb_eq in B. subst k'. rewrite has_prefix_app_self in N. discriminate.
Qed.
Theorem prefix_get_reads_prefixed_key pfx m k w : s_get (Prefix pfx (Base m)) k w = (Ok (aget m (pfx ++ k)), Prefix pfx (Base m), w).
Proof. reflexivity. Qed.

(* iterating a prefix store over the whole of its range: exactly the parent's items carrying the prefix, stripped *)
Lemma in_domain_is_prefix pfx k : pfx <> [] -> wf_bytes pfx -> wf_bytes k ->
  in_domain k pfx (prefix_end_bytes pfx) = has_prefix pfx k.
Proof.
  intros Hne Wp Wk. pose proof (prefix_end_bytes_spec pfx k Hne Wp Wk) as Sp. unfold in_domain.
  destruct (has_prefix pfx k) eqn:H.
  - destruct (proj1 Sp eq_refl) as [L U]. rewrite L. destruct (prefix_end_bytes pfx); [rewrite U|]; reflexivity.
  - destruct (bleb pfx k) eqn:L; [|reflexivity]. cbn [andb]. destruct (prefix_end_bytes pfx) as [e|] eqn:E.
    + destruct (bltb k e) eqn:U; [|reflexivity]. assert (false = true) by (apply (proj2 Sp); auto). congruence.
    + assert (false = true) by (apply (proj2 Sp); auto). congruence.
Qed.
Definition take_prefixed (pfx : bytes) : list (bytes * bytes) -> list (bytes * bytes) :=
  fix take (l : list (bytes * bytes)) :=
    match l with
    | (k, x) :: r => if has_prefix pfx k then (strip pfx k, x) :: take r else []
    | [] => []
    end.
Lemma take_all pfx l : (forall p, In p l -> has_prefix pfx (fst p) = true) ->
  take_prefixed pfx l = map (fun p => (strip pfx (fst p), snd p)) l.
Proof.
  induction l as [|[k x] r IH]; simpl; auto. intros H. pose proof (H (k, x) (or_introl eq_refl)) as Hk. simpl in Hk. rewrite Hk. f_equal. apply IH. intros p Hp. apply H; auto.
Qed.
Theorem prefix_iter_all pfx m asc w : pfx <> [] -> wf_bytes pfx -> (forall k v, In (k, v) m -> wf_bytes k) ->
  exists it, s_iter (Prefix pfx (Base m)) [] None asc w = (Ok it, Prefix pfx (Base m), w) /\
             drain it = map (fun p => (strip pfx (fst p), snd p)) (dir asc (filter (fun p => has_prefix pfx (fst p)) m)).
Proof.
  intros Hne Wp Wm. simpl s_iter. rewrite app_nil_r. unfold kv_range.
  assert (F : filter (fun p : bytes * bytes => in_domain (fst p) pfx (prefix_end_bytes pfx)) m = filter (fun p => has_prefix pfx (fst p)) m).
  { apply filter_ext_in. intros [k v] Hin. apply in_domain_is_prefix; auto. eapply Wm; eauto. }
  rewrite F. set (l := dir asc (filter (fun p => has_prefix pfx (fst p)) m)).
  assert (Hl : forall p, In p l -> has_prefix pfx (fst p) = true).
  { intros p Hp. unfold l, dir in Hp. destruct asc; [|apply in_rev in Hp]; apply filter_In in Hp; tauto. }
  destruct l as [|[k x] r] eqn:El.
  - eexists. split; [reflexivity|]. reflexivity.
  - cbn [it_valid it_key]. pose proof (Hl (k, x) (or_introl eq_refl)) as Hk. simpl in Hk. rewrite Hk. eexists. split; [reflexivity|].
    change (drain (IPrefix pfx true (IList ((k, x) :: r)))) with (take_prefixed pfx ((k, x) :: r)). apply take_all. exact Hl.
Qed.
