(* C15, the part the merge-iterator theorem takes as given: the cache items handed to the merge iterator by
   cachekv.iterator - produced by dirtyItems (move the in-range keys of the unsorted cache into the sorted
   linked list, replacing stale entries) and newMemIterator (scan with the entered/break shortcut) - are
   EXACTLY the dirty entries of the cache in the requested range, in key order, with their CURRENT values.
   With it: iterating a nest of cache stores of any depth yields exactly the in-range items of the overlaid
   view, ascending or descending, for every range. *)
From Coq Require Import List NArith Bool Lia.
From PM Require Import Base.Bytes Store.KV Store.MergeProofs Store.KVProofs.
Import ListNotations.

(* ---------- sorted lists: lookup by scan = lookup by comparison; extensionality in either direction ---------- *)
Lemma aget_assoc {V} (m : amap V) k : asorted m -> aget m k = assoc m k.
Proof.
  induction m as [|[k0 v0] r IH]; simpl; auto. intros [B S]. destruct (bcompare k k0) eqn:C.
  - apply bcompare_eq in C; subst. rewrite (proj2 (beqb_eq k0 k0) eq_refl). reflexivity.
  - assert (N : beqb k0 k = false).
    { destruct (beqb k0 k) eqn:E; auto. apply beqb_eq in E; subst. rewrite bcompare_refl in C. discriminate. }
    rewrite N. symmetry. apply (assoc_below true). intros y Hy. eapply (cmp_lt_trans true); [exact C|apply B; auto].
  - assert (N : beqb k0 k = false).
    { destruct (beqb k0 k) eqn:E; auto. apply beqb_eq in E; subst. rewrite bcompare_refl in C. discriminate. }
    rewrite N. apply IH; auto.
Qed.
Lemma dsorted_ext asc {V} (a : list (bytes * V)) : forall b, dsorted asc a -> dsorted asc b ->
  (forall k, assoc a k = assoc b k) -> a = b.
Proof.
  induction a as [|[ka va] a IH]; intros [|[kb vb] b] Sa Sb E; auto.
  - specialize (E kb). simpl in E. rewrite (proj2 (beqb_eq kb kb) eq_refl) in E. discriminate.
  - specialize (E ka). simpl in E. rewrite (proj2 (beqb_eq ka ka) eq_refl) in E. discriminate.
  - destruct Sa as [Ba Sa], Sb as [Bb Sb].
    assert (ka = kb) as ->.
    { destruct (cmp asc ka kb) eqn:C; [apply (cmp_eq asc); auto|exfalso|exfalso].
      - pose proof (E ka) as E0. simpl in E0. rewrite (proj2 (beqb_eq ka ka) eq_refl) in E0.
        destruct (beqb kb ka) eqn:B; [apply beqb_eq in B; subst; rewrite cmp_refl in C; discriminate|].
        rewrite (assoc_below asc ka b) in E0; [discriminate|]. intros y Hy. eapply cmp_lt_trans; [exact C|apply Bb; auto].
      - apply cmp_gt_lt in C. pose proof (E kb) as E0. simpl in E0. rewrite (proj2 (beqb_eq kb kb) eq_refl) in E0.
        destruct (beqb ka kb) eqn:B; [apply beqb_eq in B; subst; rewrite cmp_refl in C; discriminate|].
        rewrite (assoc_below asc kb a) in E0; [discriminate|]. intros y Hy. eapply cmp_lt_trans; [exact C|apply Ba; auto]. }
    pose proof (E kb) as E0. simpl in E0. rewrite (proj2 (beqb_eq kb kb) eq_refl) in E0. injection E0 as ->.
    f_equal. apply IH; auto. intros k. specialize (E k). simpl in E. destruct (beqb kb k) eqn:B; auto.
    apply beqb_eq in B; subst. rewrite !(assoc_below asc); auto.
Qed.

(* direction *)
Lemma rev_dsorted {V} (l : list (bytes * V)) : dsorted true l -> dsorted false (rev l).
Proof.
  induction l as [|x r IH]; simpl; auto. intros [B S].
  assert (G : forall (a : list (bytes * V)) y, dsorted false a -> (forall z, In z a -> cmp false (fst z) (fst y) = Lt) -> dsorted false (a ++ [y])).
  { induction a as [|z a IHa]; simpl; intros y Sa Ba; [split; [intros ? []|exact I]|].
    destruct Sa as [Bz Sa]. split.
    - intros w Hw. apply in_app_or in Hw. destruct Hw as [Hw|[<-|[]]]; [apply Bz; auto|apply Ba; auto].
    - apply IHa; auto. intros z0 Hz0. apply Ba. right; auto. }
  apply G; [apply IH; auto|]. intros z Hz. apply in_rev in Hz. pose proof (B z Hz) as L.
  unfold cmp in *. rewrite bcompare_antisym in L. destruct (bcompare (fst z) (fst x)); simpl in *; try discriminate; reflexivity.
Qed.
Lemma dir_dsorted asc {V} (l : list (bytes * V)) : dsorted true l -> dsorted asc (dir asc l).
Proof. destruct asc; simpl; auto. apply rev_dsorted. Qed.
Lemma assoc_rev {V} (l : list (bytes * V)) k : dsorted true l -> assoc (rev l) k = assoc l k.
Proof.
  intros S. pose proof (rev_dsorted l S) as Sr.
  (* both are "the value bound to k", and keys are unique *)
  assert (U : forall (m : list (bytes * V)) asc, dsorted asc m -> forall v, In (k, v) m <-> assoc m k = Some v).
  { induction m as [|[k0 v0] r IH]; intros asc Sm v; simpl; [split; [intros []|discriminate]|].
    destruct Sm as [B Sm]. destruct (beqb k0 k) eqn:E.
    - apply beqb_eq in E; subst. split.
      + intros [[= ->]|Hin]; auto. pose proof (B (k, v) Hin) as L. simpl in L. rewrite cmp_refl in L. discriminate.
      + intros [= ->]; auto.
    - split.
      + intros [[= -> _]|Hin]; [rewrite (proj2 (beqb_eq k k) eq_refl) in E; discriminate|]. apply (IH asc); auto.
      + intros H. right. apply (IH asc); auto. }
  destruct (assoc l k) as [v|] eqn:E.
  - apply (U _ false Sr). apply in_rev. rewrite rev_involutive. apply (U _ true S). exact E.
  - destruct (assoc (rev l) k) as [v|] eqn:E2; auto. apply (U _ false Sr) in E2. apply in_rev in E2.
    apply (U _ true S) in E2. congruence.
Qed.
Lemma assoc_dir asc {V} (l : list (bytes * V)) k : dsorted true l -> assoc (dir asc l) k = assoc l k.
Proof. destruct asc; simpl; auto. apply assoc_rev. Qed.

(* filtering a sorted list *)
Lemma filter_sorted {V} (f : bytes * V -> bool) (l : list (bytes * V)) : dsorted true l -> dsorted true (filter f l).
Proof.
  induction l as [|x r IH]; simpl; auto. intros [B S]. destruct (f x); [|apply IH; auto].
  split; [|apply IH; auto]. intros y Hy. apply filter_In in Hy. apply B. tauto.
Qed.
Lemma assoc_filter_key {V} (g : bytes -> bool) (l : list (bytes * V)) k :
  assoc (filter (fun p => g (fst p)) l) k = if g k then assoc l k else None.
Proof.
  induction l as [|[k0 v0] r IH]; simpl; [destruct (g k); auto|].
  destruct (g k0) eqn:G0; simpl; destruct (beqb k0 k) eqn:B; try (apply beqb_eq in B; subst; rewrite G0); auto.
  rewrite IH. rewrite G0. reflexivity.
Qed.

(* ---------- merge_dirty: sorted union, the moved (left) items win ---------- *)
Lemma merge_dirty_nil_r un : merge_dirty un [] = un.
Proof. destruct un; reflexivity. Qed.
Lemma merge_dirty_cons u un s so : merge_dirty (u :: un) (s :: so) =
  match bcompare (fst u) (fst s) with
  | Lt => u :: merge_dirty un (s :: so)
  | Gt => s :: merge_dirty (u :: un) so
  | Eq => u :: merge_dirty un so
  end.
Proof. reflexivity. Qed.
Lemma merge_dirty_sem (un : list mem_item) : forall so, asorted un -> asorted so ->
  asorted (merge_dirty un so) /\
  (forall k, assoc (merge_dirty un so) k = match assoc un k with Some v => Some v | None => assoc so k end) /\
  (forall d, below true d un -> below true d so -> below true d (merge_dirty un so)).
Proof.
  induction un as [|[ku vu] un IHu].
  - intros so _ Ss. simpl. destruct so; auto.
  - induction so as [|[ks vs] so IHs]; intros Su Ss.
    + rewrite merge_dirty_nil_r. split; auto. split; [intros k; destruct (assoc _ k); auto|auto].
    + rewrite merge_dirty_cons. pose proof Su as Su0. pose proof Ss as Ss0.
      destruct Su as [Bu Su]. destruct Ss as [Bs Ss]. cbn [fst] in *. destruct (bcompare ku ks) eqn:C.
      * apply bcompare_eq in C. subst ks. destruct (IHu so Su Ss) as (S1 & A1 & B1). split; [|split].
        -- split; auto. apply B1; auto.
        -- intros k. simpl. destruct (beqb ku k); auto.
        -- intros d Bd1 Bd2 y [<-|Hy]; [apply (Bd1 (ku, vu)); left; auto|].
           apply (B1 d); [intros z Hz; apply Bd1; right; auto|intros z Hz; apply Bd2; right; auto|exact Hy].
      * destruct (IHu ((ks, vs) :: so) Su Ss0) as (S1 & A1 & B1). split; [|split].
        -- split; auto. apply B1; auto. intros y [<-|Hy]; [exact C|]. eapply (cmp_lt_trans true); [exact C|apply Bs; auto].
        -- intros k. cbn [assoc]. destruct (beqb ku k) eqn:E; auto. rewrite A1. reflexivity.
        -- intros d Bd1 Bd2 y [<-|Hy]; [apply (Bd1 (ku, vu)); left; auto|].
           apply (B1 d); [intros z Hz; apply Bd1; right; auto|exact Bd2|exact Hy].
      * apply bcompare_gt_lt in C. destruct (IHs Su0 Ss) as (S1 & A1 & B1). split; [|split].
        -- split; auto. apply B1; auto. intros y [<-|Hy]; [exact C|]. eapply (cmp_lt_trans true); [exact C|apply Bu; auto].
        -- intros k. cbn [assoc]. rewrite A1. cbn [assoc]. destruct (beqb ks k) eqn:E; auto.
           apply beqb_eq in E; subst k.
           assert (N : beqb ku ks = false).
           { destruct (beqb ku ks) eqn:E2; auto. apply beqb_eq in E2; subst. rewrite bcompare_refl in C. discriminate. }
           rewrite N. rewrite (assoc_below true ks un); auto. intros y Hy. eapply (cmp_lt_trans true); [exact C|apply Bu; auto].
        -- intros d Bd1 Bd2 y [<-|Hy]; [apply (Bd2 (ks, vs)); left; auto|].
           apply (B1 d); [exact Bd1|intros z Hz; apply Bd2; right; auto|exact Hy].
Qed.

(* ---------- newMemIterator's scan of a sorted list = the in-domain items ---------- *)
Lemma in_domain_lower k s e : in_domain k s e = true -> bleb s k = true.
Proof. unfold in_domain. intros H. apply andb_true_iff in H. tauto. Qed.
Lemma bleb_trans a b c : bleb a b = true -> bltb b c = true -> bleb a c = true.
Proof.
  unfold bleb, bltb. destruct (bcompare a b) eqn:C1; try discriminate; destruct (bcompare b c) eqn:C2; try discriminate; intros _ _.
  - apply bcompare_eq in C1; subst. rewrite C2. reflexivity.
  - rewrite (bcompare_lt_trans _ _ _ C1 C2). reflexivity.
Qed.
Lemma mem_scan_entered s e (l : list mem_item) : asorted l -> (forall y, In y l -> bleb s (fst y) = true) ->
  mem_scan true s e l = filter (fun it => in_domain (fst it) s e) l.
Proof.
  induction l as [|x r IH]; simpl; auto. intros [B S] L. destruct (in_domain (fst x) s e) eqn:D.
  - f_equal. apply IH; auto.
  - (* x is at or beyond the end: so is everything after it *)
    symmetry.
    assert (G : forall y, In y r -> in_domain (fst y) s e = false).
    { intros y Hy. unfold in_domain in *. rewrite (L x (or_introl eq_refl)) in D. rewrite (L y (or_intror Hy)). cbn [andb] in *.
      destruct e as [e'|]; [|discriminate]. unfold bltb in *. pose proof (B y Hy) as Lt. change (cmp true (fst x) (fst y)) with (bcompare (fst x) (fst y)) in Lt.
      destruct (bcompare (fst y) e') eqn:C; auto. rewrite (bcompare_lt_trans _ _ _ Lt C) in D. discriminate. }
    clear - G. induction r as [|y r IHr]; simpl; auto. rewrite (G y (or_introl eq_refl)). apply IHr. intros z Hz. apply G. right; auto.
Qed.
Lemma mem_scan_sorted s e (l : list mem_item) : asorted l -> mem_scan false s e l = filter (fun it => in_domain (fst it) s e) l.
Proof.
  induction l as [|x r IH]; simpl; auto. intros [B S]. destruct (in_domain (fst x) s e) eqn:D; [|apply IH; auto].
  f_equal. apply mem_scan_entered; auto. intros y Hy. pose proof (B y Hy) as L. apply in_domain_lower in D.
  apply (bleb_trans _ (fst x)); auto. unfold bltb. change (cmp true (fst x) (fst y)) with (bcompare (fst x) (fst y)) in L. rewrite L. reflexivity.
Qed.

(* ---------- the dirty entries of a cache, as a sorted item list ---------- *)
Definition dlist (c : cstate) : list mem_item :=
  map (fun p => (fst p, ce_val (snd p))) (filter (fun p => ce_dirty (snd p)) (c_cache c)).
Lemma map_keep_sorted {V W} (f : bytes * V -> W) (l : list (bytes * V)) : dsorted true l -> dsorted true (map (fun p => (fst p, f p)) l).
Proof.
  induction l as [|x r IH]; simpl; auto. intros [B S]. split; [|apply IH; auto].
  intros y Hy. apply in_map_iff in Hy. destruct Hy as (z & <- & Hz). simpl. apply B; auto.
Qed.
Lemma assoc_map_keep {V W} (f : bytes * V -> W) (l : list (bytes * V)) k :
  assoc (map (fun p => (fst p, f p)) l) k = match assoc l k with Some v => Some (f (k, v)) | None => None end.
Proof.
  induction l as [|[k0 v0] r IH]; simpl; auto. destruct (beqb k0 k) eqn:B; auto. apply beqb_eq in B; subst. reflexivity.
Qed.
Lemma dlist_sorted c : asorted (c_cache c) -> asorted (dlist c).
Proof. intros S. unfold dlist. apply (map_keep_sorted (fun p => ce_val (snd p))). apply filter_sorted; auto. Qed.
Lemma assoc_filter_val {V} (g : V -> bool) (l : list (bytes * V)) k : dsorted true l ->
  assoc (filter (fun p => g (snd p)) l) k = match assoc l k with Some v => if g v then Some v else None | None => None end.
Proof.
  induction l as [|[k0 v0] r IH]; simpl; auto. intros [B S]. destruct (beqb k0 k) eqn:E.
  - apply beqb_eq in E; subst. destruct (g v0) eqn:G0; simpl; [rewrite (proj2 (beqb_eq k k) eq_refl); reflexivity|].
    apply (assoc_below true). intros y Hy. apply filter_In in Hy. apply B. tauto.
  - destruct (g v0); simpl; [rewrite E|]; apply IH; auto.
Qed.
Lemma assoc_dlist c k : asorted (c_cache c) ->
  assoc (dlist c) k = match aget (c_cache c) k with Some e => if ce_dirty e then Some (ce_val e) else None | None => None end.
Proof.
  intros S. unfold dlist. rewrite (assoc_map_keep (fun p => ce_val (snd p))). rewrite (assoc_filter_val ce_dirty) by auto.
  rewrite aget_assoc by auto. destruct (assoc (c_cache c) k) as [e|]; auto. destruct (ce_dirty e); auto.
Qed.

(* ---------- the invariant of (cache, unsortedCache, sortedCache) ---------- *)
Definition dinv (c : cstate) : Prop :=
  asorted (c_cache c) /\ asorted (c_unsorted c) /\ asorted (c_sorted c) /\
  (forall k, aget (c_unsorted c) k <> None -> exists e, aget (c_cache c) k = Some e /\ ce_dirty e = true) /\
  (forall k e, aget (c_cache c) k = Some e -> ce_dirty e = true -> aget (c_unsorted c) k <> None \/ assoc (c_sorted c) k <> None) /\
  (forall k v, assoc (c_sorted c) k = Some v -> exists e, aget (c_cache c) k = Some e /\ ce_dirty e = true /\
                                                  (aget (c_unsorted c) k = None -> v = ce_val e)).
Lemma dinv_empty : dinv c_empty.
Proof. repeat split; simpl; auto; try (intros; discriminate); intros k H; contradiction. Qed.

Lemma dinv_set_dirty c k v del : dinv c -> dinv (set_cache_value c k v del true).
Proof.
  intros (S1 & S2 & S3 & U & D & So). unfold dinv, set_cache_value. cbn [c_cache c_unsorted c_sorted].
  split; [apply aset_sorted; auto|]. split; [apply aset_sorted; auto|]. split; [auto|]. split; [|split].
  - intros k'. rewrite !aget_aset by auto. destruct (beqb k k') eqn:B; [intros _; eexists; split; [reflexivity|reflexivity]|apply U].
  - intros k' e'. rewrite !aget_aset by auto. destruct (beqb k k') eqn:B; [intros _ _; left; discriminate|apply D].
  - intros k' v' E. rewrite !aget_aset by auto. destruct (beqb k k') eqn:B.
    + eexists. split; [reflexivity|]. split; [reflexivity|discriminate].
    + apply So; auto.
Qed.
Lemma dinv_set_clean c k v : dinv c -> aget (c_cache c) k = None -> dinv (set_cache_value c k v false false).
Proof.
  intros (S1 & S2 & S3 & U & D & So) N. unfold dinv, set_cache_value. cbn [c_cache c_unsorted c_sorted].
  split; [apply aset_sorted; auto|]. split; [auto|]. split; [auto|]. split; [|split].
  - intros k' H. destruct (U k' H) as (e & E & Dt). exists e. split; auto. rewrite aget_aset by auto.
    destruct (beqb k k') eqn:B; auto. apply beqb_eq in B; subst. congruence.
  - intros k' e'. rewrite aget_aset by auto. destruct (beqb k k') eqn:B; [intros [= <-]; discriminate|apply D].
  - intros k' v' E. destruct (So k' v' E) as (e & Ee & Dt & Vv). exists e. split; auto. rewrite aget_aset by auto.
    destruct (beqb k k') eqn:B; auto. apply beqb_eq in B; subst. congruence.
Qed.

(* ---------- dirtyItems ---------- *)
Definition dom (s : bytes) (e : option bytes) (k : bytes) : bool := in_domain k s e.
Definition moved (c : cstate) (s : bytes) (e : option bytes) : list mem_item :=
  map (fun p => (fst p, cache_val c (fst p))) (filter (fun p => in_domain (fst p) s e) (c_unsorted c)).
Lemma moved_sorted c s e : asorted (c_unsorted c) -> asorted (moved c s e).
Proof. intros S. unfold moved. apply (map_keep_sorted (fun p => cache_val c (fst p))). apply filter_sorted; auto. Qed.
Lemma assoc_moved c s e k : asorted (c_unsorted c) ->
  assoc (moved c s e) k = if in_domain k s e then match aget (c_unsorted c) k with Some _ => Some (cache_val c k) | None => None end else None.
Proof.
  intros S. unfold moved. rewrite (assoc_map_keep (fun p => cache_val c (fst p))).
  rewrite (assoc_filter_key (fun k => in_domain k s e)). rewrite aget_assoc by auto.
  destruct (in_domain k s e); [|reflexivity]. destruct (assoc (c_unsorted c) k); reflexivity.
Qed.
Lemma dirty_items_sorted_eq c s e : c_sorted (dirty_items c s e) = merge_dirty (moved c s e) (c_sorted c).
Proof. reflexivity. Qed.

Lemma dinv_dirty_items c s e : dinv c -> dinv (dirty_items c s e).
Proof.
  intros (S1 & S2 & S3 & U & D & So).
  destruct (merge_dirty_sem (moved c s e) (c_sorted c) (moved_sorted c s e S2) S3) as (Sm & Am & _).
  assert (Un : forall k, aget (filter (fun p => negb (in_domain (fst p) s e)) (c_unsorted c)) k =
                         if in_domain k s e then None else aget (c_unsorted c) k).
  { intros k. rewrite !aget_assoc by (try apply filter_sorted; auto).
    rewrite (assoc_filter_key (fun k => negb (in_domain k s e))). destruct (in_domain k s e); reflexivity. }
  unfold dinv. cbn [dirty_items c_cache c_unsorted c_sorted]. fold (moved c s e).
  split; [auto|]. split; [apply filter_sorted; auto|]. split; [auto|]. split; [|split].
  - intros k. rewrite Un. destruct (in_domain k s e); [intros H; contradiction|apply U].
  - intros k e0 E0 Dt. rewrite Un, Am, assoc_moved by auto. destruct (in_domain k s e) eqn:Dk.
    + right. destruct (D k e0 E0 Dt) as [H|H].
      * destruct (aget (c_unsorted c) k); [discriminate|contradiction].
      * destruct (aget (c_unsorted c) k); [discriminate|exact H].
    + apply (D k e0); auto.
  - intros k v. rewrite Am, assoc_moved, Un by auto. destruct (in_domain k s e) eqn:Dk.
    + destruct (aget (c_unsorted c) k) as [u|] eqn:Eu.
      * intros [= <-]. destruct (U k ltac:(rewrite Eu; discriminate)) as (e0 & E0 & Dt). exists e0. split; auto. split; auto.
        intros _. unfold cache_val. rewrite E0. reflexivity.
      * intros Es. destruct (So k v Es) as (e0 & E0 & Dt & Vv). exists e0. auto.
    + intros Es. apply (So k v Es).
Qed.

(* what the merge iterator is given: the dirty entries in range, current values, in iteration order *)
Theorem mem_items_are_the_dirty_entries c s e asc : dinv c ->
  mem_items (dirty_items c s e) s e asc = dir asc (filter (fun it => in_domain (fst it) s e) (dlist c)).
Proof.
  intros H. pose proof H as (S1 & S2 & S3 & U & D & So).
  pose proof (dinv_dirty_items c s e H) as (_ & _ & S3' & _).
  unfold mem_items. f_equal. rewrite mem_scan_sorted by auto.
  apply (dsorted_ext true); [apply filter_sorted; auto|apply filter_sorted; apply dlist_sorted; auto|].
  intros k. rewrite !(assoc_filter_key (fun k => in_domain k s e)). destruct (in_domain k s e) eqn:Dk; auto.
  rewrite dirty_items_sorted_eq.
  destruct (merge_dirty_sem (moved c s e) (c_sorted c) (moved_sorted c s e S2) S3) as (_ & Am & _).
  rewrite Am, assoc_moved, Dk, assoc_dlist by auto.
  destruct (aget (c_unsorted c) k) as [u|] eqn:Eu.
  - destruct (U k ltac:(rewrite Eu; discriminate)) as (e0 & E0 & Dt). unfold cache_val. rewrite E0, Dt. reflexivity.
  - destruct (assoc (c_sorted c) k) as [v|] eqn:Es.
    + destruct (So k v Es) as (e0 & E0 & Dt & Vv). rewrite E0, Dt, (Vv Eu). reflexivity.
    + destruct (aget (c_cache c) k) as [e0|] eqn:E0; auto. destruct (ce_dirty e0) eqn:Dt; auto.
      destruct (D k e0 E0 Dt) as [X|X]; [rewrite Eu in X|rewrite Es in X]; contradiction.
Qed.

(* ---------- nests of cache stores: the structural invariant is kept by every operation ---------- *)
Fixpoint dnest (s : store) : Prop :=
  match s with Base _ => True | Cache c p => dinv c /\ dnest p | _ => False end.

Lemma s_get_dnest s : forall k w r s' w', dnest s -> s_get s k w = (r, s', w') -> dnest s'.
Proof.
  induction s as [m|c p IH|? ? _|? _|? _]; intros k w r s' w' D; simpl in D; try contradiction; simpl.
  - intros [= _ <- _]. exact I.
  - destruct D as [Dc Dp]. destruct (aget (c_cache c) k) as [e|] eqn:E; [intros [= _ <- _]; split; auto|].
    destruct (s_get p k w) as [[rp p'] wp] eqn:Ep. pose proof (IH _ _ _ _ _ Dp Ep) as Dp'.
    destruct rp; intros [= _ <- _]; split; auto. apply dinv_set_clean; auto.
Qed.
Lemma s_has_dnest s k w r s' w' : dnest s -> s_has s k w = (r, s', w') -> dnest s'.
Proof.
  destruct s as [m|c p|? ?|?|?]; intros D; simpl in D; try contradiction; simpl.
  - intros [= _ <- _]. exact I.
  - destruct D as [Dc Dp]. destruct (aget (c_cache c) k) as [e|] eqn:E; [intros [= _ <- _]; split; auto|].
    destruct (s_get p k w) as [[rp p'] wp] eqn:Ep. pose proof (s_get_dnest _ _ _ _ _ _ Dp Ep) as Dp'.
    destruct rp; intros [= _ <- _]; split; auto. apply dinv_set_clean; auto.
Qed.
Lemma s_set_dnest s k v w r s' w' : dnest s -> s_set s k v w = (r, s', w') -> dnest s'.
Proof.
  destruct s as [m|c p|? ?|?|?]; intros D; simpl in D; try contradiction; simpl; intros [= _ <- _]; [exact I|].
  destruct D; split; auto. apply dinv_set_dirty; auto.
Qed.
Lemma s_delete_dnest s k w r s' w' : dnest s -> s_delete s k w = (r, s', w') -> dnest s'.
Proof.
  destruct s as [m|c p|? ?|?|?]; intros D; simpl in D; try contradiction; simpl; intros [= _ <- _]; [exact I|].
  destruct D; split; auto. apply dinv_set_dirty; auto.
Qed.
Lemma write_entries_dnest es : forall p w r p' w', dnest p -> write_entries es p w = (r, p', w') -> dnest p'.
Proof.
  induction es as [|[k e] rr IH]; intros p w r p' w' D; simpl; [intros [= _ <- _]; auto|].
  destruct (ce_dirty e); [|apply IH; auto].
  destruct (ce_deleted e).
  - destruct (s_delete p k w) as [[r1 p1] w1] eqn:E1. pose proof (s_delete_dnest _ _ _ _ _ _ D E1) as D1.
    destruct r1; [apply IH; auto|intros [= _ <- _]; auto].
  - destruct (ce_val e) as [v|]; [|apply IH; auto].
    destruct (s_set p k v w) as [[r1 p1] w1] eqn:E1. pose proof (s_set_dnest _ _ _ _ _ _ _ D E1) as D1.
    destruct r1; [apply IH; auto|intros [= _ <- _]; auto].
Qed.
Lemma c_write_dnest s w r s' w' : dnest s -> c_write s w = (r, s', w') -> dnest s'.
Proof.
  destruct s as [m|c p|? ?|?|?]; intros D; simpl in D; try contradiction; simpl; [intros [= _ <- _]; exact I|].
  destruct D as [Dc Dp]. destruct (write_entries (c_cache c) p w) as [[r1 p1] w1] eqn:E1.
  pose proof (write_entries_dnest _ _ _ _ _ _ Dp E1) as D1.
  destruct r1; intros [= _ <- _]; split; auto. apply dinv_empty.
Qed.

(* ---------- iteration over a nest of cache stores = the in-range items of the overlaid view ---------- *)
Lemma assoc_kv_range (m : kv) st en asc k : asorted m ->
  assoc (kv_range m st en asc) k = if in_domain k st en then aget m k else None.
Proof.
  intros S. unfold kv_range. rewrite assoc_dir by (apply filter_sorted; auto).
  rewrite (assoc_filter_key (fun k => in_domain k st en)). rewrite aget_assoc by auto. reflexivity.
Qed.
Lemma kv_range_dsorted (m : kv) st en asc : asorted m -> dsorted asc (kv_range m st en asc).
Proof. intros S. unfold kv_range. apply dir_dsorted. apply filter_sorted; auto. Qed.

Theorem iter_refines s : forall st en asc w, nest_ok s -> dnest s ->
  exists l s', s_iter s st en asc w = (Ok (IList l), s', w) /\ l = kv_range (abs s) st en asc /\
               nest_ok s' /\ dnest s' /\ abs s' = abs s.
Proof.
  induction s as [m|c p IH|? ? _|? _|? _]; intros st en asc w N D; simpl in N, D; try contradiction.
  - exists (kv_range m st en asc), (Base m). simpl. auto.
  - destruct N as [Np OK]. destruct D as [Dc Dp].
    destruct (IH st en asc w Np Dp) as (lp & p' & Ep & Elp & Np' & Dp' & Ap). simpl s_iter. rewrite Ep. cbn [drain].
    rewrite (mem_items_are_the_dirty_entries c st en asc Dc). set (c' := dirty_items c st en).
    rewrite merge_run_spec.
    set (cac := dir asc (filter (fun it => in_domain (fst it) st en) (dlist c))).
    pose proof (abs_sorted p Np) as Sm. pose proof Dc as (S1 & _).
    assert (Spar : dsorted asc lp) by (subst lp; apply kv_range_dsorted; auto).
    assert (Scac : dsorted asc cac) by (unfold cac; apply dir_dsorted; apply filter_sorted; apply dlist_sorted; auto).
    destruct (merge_spec_sem asc lp cac Spar Scac) as (Sl & Al & _).
    exists (merge_spec asc lp cac), (Cache c' p'). split; [reflexivity|]. split; [|split; [|split]].
    + apply (dsorted_ext asc); [exact Sl|apply kv_range_dsorted; apply cache_abs_sorted; auto|].
      intros k. rewrite Al. cbn [abs]. rewrite assoc_kv_range by (apply cache_abs_sorted; auto).
      rewrite (cache_abs_view c (abs p) k OK Sm). unfold overlay_at, view.
      subst lp. rewrite assoc_kv_range by auto. unfold cac. rewrite assoc_dir by (apply filter_sorted; apply dlist_sorted; auto).
      rewrite (assoc_filter_key (fun k => in_domain k st en)). destruct (in_domain k st en); [|reflexivity].
      rewrite assoc_dlist by auto. destruct OK as [_ OKe].
      destruct (aget (c_cache c) k) as [e|] eqn:Ee; [|reflexivity].
      destruct (OKe k e Ee) as (Cl & _ & _). destruct (ce_dirty e).
      * destruct (ce_val e); reflexivity.
      * destruct (Cl eq_refl) as [-> _]. reflexivity.
    + split; [exact Np'|]. rewrite Ap. exact OK.
    + split; [apply dinv_dirty_items; auto|exact Dp'].
    + cbn [abs]. rewrite Ap. reflexivity.
Qed.
