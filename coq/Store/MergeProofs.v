(* C15: the cacheMergeIterator state machine (skipUntilExistsOrInvalid / Key / Value / Next
   as coded) yields exactly the overlay of the parent sequence with the cache items:
   sorted in the iteration direction, duplicate-free, without deleted keys. *)
From Coq Require Import List NArith Bool Lia.
From PM Require Import Base.Bytes Store.KV.
Import ListNotations.

(* ---------- direction-aware comparison ---------- *)
Lemma cmp_eq asc a b : cmp asc a b = Eq <-> a = b.
Proof.
  unfold cmp. destruct asc; [apply bcompare_eq|].
  rewrite <- bcompare_eq. destruct (bcompare a b); simpl; split; congruence.
Qed.
Lemma cmp_refl asc a : cmp asc a a = Eq. Proof. apply cmp_eq; auto. Qed.
Lemma cmp_antisym asc a b : cmp asc b a = CompOpp (cmp asc a b).
Proof. unfold cmp. destruct asc; rewrite (bcompare_antisym a b); destruct (bcompare a b); auto. Qed.
Lemma bcompare_gt_lt a b : bcompare a b = Gt <-> bcompare b a = Lt.
Proof. rewrite (bcompare_antisym a b). destruct (bcompare a b); simpl; split; congruence. Qed.
Lemma cmp_lt_trans asc a b c : cmp asc a b = Lt -> cmp asc b c = Lt -> cmp asc a c = Lt.
Proof.
  unfold cmp. destruct asc; [apply bcompare_lt_trans|].
  intros H1 H2.
  assert (G1 : bcompare b a = Lt) by (apply bcompare_gt_lt; destruct (bcompare a b); simpl in *; congruence).
  assert (G2 : bcompare c b = Lt) by (apply bcompare_gt_lt; destruct (bcompare b c); simpl in *; congruence).
  pose proof (bcompare_lt_trans _ _ _ G2 G1) as G. apply bcompare_gt_lt in G. rewrite G; auto.
Qed.
Lemma cmp_gt_lt asc a b : cmp asc a b = Gt <-> cmp asc b a = Lt.
Proof. rewrite (cmp_antisym asc a b). destruct (cmp asc a b); simpl; split; congruence. Qed.

(* ---------- the specification: overlay merge ---------- *)
Definition ocons (k : bytes) (o : option bytes) (l : list (bytes * bytes)) : list (bytes * bytes) :=
  match o with Some v => (k, v) :: l | None => l end.
Fixpoint somes (cac : list mem_item) : list (bytes * bytes) :=
  match cac with [] => [] | (k, o) :: r => ocons k o (somes r) end.
Fixpoint merge_spec (asc : bool) (par : list (bytes * bytes)) : list mem_item -> list (bytes * bytes) :=
  fix go (cac : list mem_item) : list (bytes * bytes) :=
    match par, cac with
    | [], _ => somes cac
    | _, [] => par
    | (kp, vp) :: pr, (kc, vc) :: cr =>
      match cmp asc kp kc with
      | Lt => (kp, vp) :: merge_spec asc pr cac
      | Eq => ocons kp vc (merge_spec asc pr cr)
      | Gt => ocons kc vc (go cr)
      end
    end.
Lemma merge_spec_nil_l asc cac : merge_spec asc [] cac = somes cac.
Proof. destruct cac; reflexivity. Qed.
Lemma merge_spec_nil_r asc par : merge_spec asc par [] = par.
Proof. destruct par as [|[k v] r]; reflexivity. Qed.
Lemma merge_spec_cons asc kp vp pr kc vc cr :
  merge_spec asc ((kp, vp) :: pr) ((kc, vc) :: cr) =
  match cmp asc kp kc with
  | Lt => (kp, vp) :: merge_spec asc pr ((kc, vc) :: cr)
  | Eq => ocons kp vc (merge_spec asc pr cr)
  | Gt => ocons kc vc (merge_spec asc ((kp, vp) :: pr) cr)
  end.
Proof. reflexivity. Qed.

(* ---------- skipCacheDeletes ---------- *)
Lemma skip_none_somes asc cac : somes (skip_cache_deletes asc None cac) = somes cac.
Proof. induction cac as [|[k [v|]] r IH]; simpl; auto. Qed.
Lemma skip_none_head asc cac :
  match skip_cache_deletes asc None cac with
  | [] => True | (k, Some v) :: _ => True | (k, None) :: _ => False end.
Proof. induction cac as [|[k [v|]] r IH]; simpl; auto. Qed.
Lemma skip_len asc u cac : length (skip_cache_deletes asc u cac) <= length cac.
Proof.
  induction cac as [|[k [v|]] r IH]; simpl; auto.
  destruct u as [u|]; [destruct (cmp asc k u)|]; simpl; lia.
Qed.
Lemma skip_until_key_spec asc kp vp pr cac :
  merge_spec asc ((kp, vp) :: pr) (skip_cache_deletes asc (Some kp) cac) = merge_spec asc ((kp, vp) :: pr) cac.
Proof.
  induction cac as [|[k [v|]] r IH]; simpl skip_cache_deletes; auto.
  destruct (cmp asc k kp) eqn:C; auto.
  rewrite IH. symmetry. etransitivity; [apply merge_spec_cons|].
  rewrite (cmp_antisym asc k kp), C. reflexivity.
Qed.

Definition msize (it : miter) : nat := length (mi_par it) + length (mi_cac it).

(* what a state looks like once skipUntilExistsOrInvalid has returned *)
Definition settled (it : miter) (b : bool) : Prop :=
  (b = false -> merge_spec (mi_asc it) (mi_par it) (mi_cac it) = []) /\
  (b = true -> exists k v, m_current it = Some (k, Some v) /\
      merge_spec (mi_asc it) (mi_par it) (mi_cac it) =
        (k, v) :: merge_spec (mi_asc it) (mi_par (m_next it)) (mi_cac (m_next it)) /\
      msize (m_next it) < msize it /\ mi_asc (m_next it) = mi_asc it).

Lemma skip_until_spec fuel : forall it, msize it < fuel ->
  exists it1 b, skip_until fuel it = Some (it1, b) /\ mi_asc it1 = mi_asc it /\ msize it1 <= msize it /\
    merge_spec (mi_asc it) (mi_par it1) (mi_cac it1) = merge_spec (mi_asc it) (mi_par it) (mi_cac it) /\
    settled it1 b.
Proof.
  induction fuel as [|f IH]; intros [par cac asc] Hf; [unfold msize in Hf; simpl in Hf; lia|].
  unfold msize in *. simpl in Hf. simpl skip_until. cbn [mi_par mi_cac mi_asc mk_miter].
  destruct par as [|[kp vp] pr].
  - (* parent exhausted *)
    set (c := skip_cache_deletes asc None cac).
    exists (mk_miter [] c asc), (match c with [] => false | _ => true end).
    split; auto. split; auto. cbn [mi_par mi_cac mi_asc mk_miter].
    split. { pose proof (skip_len asc None cac) as Hl. fold c in Hl. simpl; lia. }
    split. { rewrite !merge_spec_nil_l. apply skip_none_somes. }
    pose proof (skip_none_head asc cac) as Hh. fold c in Hh.
    unfold settled. cbn [mi_par mi_cac mi_asc mk_miter]. destruct c as [|[k [v|]] r]; [| |contradiction].
    + split; [intros _; reflexivity|discriminate].
    + split; [discriminate|intros _]. exists k, v. unfold m_current, m_next, msize; cbn [mi_par mi_cac mi_asc mk_miter length].
      rewrite !merge_spec_nil_l. simpl somes. repeat split; auto; try lia.
  - destruct cac as [|[kc vc] cr].
    + exists (mk_miter ((kp, vp) :: pr) [] asc), true. split; auto. split; auto. split; [simpl; lia|]. split; auto.
      unfold settled. split; [discriminate|intros _]. exists kp, vp.
      unfold m_current, m_next, msize; cbn [mi_par mi_cac mi_asc mk_miter length]. rewrite !merge_spec_nil_r. repeat split; auto; try lia.
    + destruct (cmp asc kp kc) eqn:C.
      * (* same key *)
        destruct vc as [v|].
        -- exists (mk_miter ((kp, vp) :: pr) ((kc, Some v) :: cr) asc), true.
           split; auto. split; auto. split; [simpl; lia|]. split; auto.
           unfold settled. split; [discriminate|intros _]. exists kp, v.
           unfold m_current, m_next, msize; cbn [mi_par mi_cac mi_asc mk_miter]. rewrite C. cbn [mi_par mi_cac mi_asc mk_miter].
           rewrite merge_spec_cons, C. cbn [ocons length]. repeat split; auto; try lia.
        -- destruct (IH (mk_miter pr cr asc)) as (it1 & b & E & A & S & M & St).
           { unfold msize; simpl in *; lia. }
           exists it1, b. split; auto. split; auto. unfold msize in *; cbn [mi_par mi_cac mi_asc mk_miter] in *.
           split; [simpl; lia|]. split; auto.
           rewrite M. rewrite merge_spec_cons, C. reflexivity.
      * exists (mk_miter ((kp, vp) :: pr) ((kc, vc) :: cr) asc), true.
        split; auto. split; auto. split; [simpl; lia|]. split; auto.
        unfold settled. split; [discriminate|intros _]. exists kp, vp.
        unfold m_current, m_next, msize; cbn [mi_par mi_cac mi_asc mk_miter]. rewrite C. cbn [mi_par mi_cac mi_asc mk_miter].
        rewrite merge_spec_cons, C. cbn [ocons length]. repeat split; auto; try lia.
      * destruct vc as [v|].
        -- exists (mk_miter ((kp, vp) :: pr) ((kc, Some v) :: cr) asc), true.
           split; auto. split; auto. split; [simpl; lia|]. split; auto.
           unfold settled. split; [discriminate|intros _]. exists kc, v.
           unfold m_current, m_next, msize; cbn [mi_par mi_cac mi_asc mk_miter]. rewrite C. cbn [mi_par mi_cac mi_asc mk_miter].
           rewrite merge_spec_cons, C. cbn [ocons length]. repeat split; auto; try lia.
        -- (* deleted cache entry below the parent key: skipCacheDeletes(keyP) *)
           assert (Hs : skip_cache_deletes asc (Some kp) ((kc, None) :: cr) = skip_cache_deletes asc (Some kp) cr).
           { simpl. rewrite (cmp_antisym asc kp kc), C. reflexivity. }
           destruct (IH (mk_miter ((kp, vp) :: pr) (skip_cache_deletes asc (Some kp) ((kc, None) :: cr)) asc))
             as (it1 & b & E & A & S & M & St).
           { unfold msize; cbn [mi_par mi_cac]. rewrite Hs. pose proof (skip_len asc (Some kp) cr). simpl in *; lia. }
           exists it1, b. split; auto. split; auto. unfold msize in *; cbn [mi_par mi_cac mi_asc mk_miter] in *.
           split. { rewrite Hs in S. pose proof (skip_len asc (Some kp) cr). simpl in *; lia. }
           split; auto. rewrite M. apply skip_until_key_spec.
Qed.

Lemma m_collect_unfold f it :
  m_collect (S f) it =
  match skip_until (S (length (mi_par it) + length (mi_cac it))) it with
  | None => None
  | Some (it1, false) => Some []
  | Some (it1, true) =>
    match m_current it1 with
    | Some (k, Some v) =>
      match m_collect f (m_next it1) with Some r => Some ((k, v) :: r) | None => None end
    | _ => None
    end
  end.
Proof. reflexivity. Qed.

(* C15: iterating the merge iterator to exhaustion yields the overlay merge *)
Lemma m_collect_spec fuel : forall it, msize it < fuel ->
  m_collect fuel it = Some (merge_spec (mi_asc it) (mi_par it) (mi_cac it)).
Proof.
  induction fuel as [|f IH]; intros it Hf; [lia|].
  rewrite m_collect_unfold.
  destruct (skip_until_spec (S (length (mi_par it) + length (mi_cac it))) it) as (it1 & b & E & A & S1 & M & St).
  { unfold msize; lia. }
  rewrite E. rewrite <- M. destruct b.
  - destruct St as [_ St]. destruct (St eq_refl) as (k & v & Cu & Ms & Lt & An).
    rewrite Cu. rewrite IH by (unfold msize in *; lia). rewrite An. rewrite <- A. rewrite Ms. reflexivity.
  - destruct St as [St _]. rewrite <- A. rewrite (St eq_refl). reflexivity.
Qed.
Theorem merge_run_spec par cac asc : merge_run par cac asc = Some (merge_spec asc par cac).
Proof. unfold merge_run. apply (m_collect_spec _ (mk_miter par cac asc)). unfold msize; simpl; lia. Qed.

(* ---------- the overlay semantics of merge_spec on sorted sequences ---------- *)
Section Sem.
  Variable asc : bool.
  Fixpoint dsorted {V} (l : list (bytes * V)) : Prop :=
    match l with
    | [] => True
    | x :: r => (forall y, In y r -> cmp asc (fst x) (fst y) = Lt) /\ dsorted r
    end.
  Fixpoint assoc {V} (l : list (bytes * V)) (k : bytes) : option V :=
    match l with [] => None | (k0, v0) :: r => if beqb k0 k then Some v0 else assoc r k end.
  Definition below {V} (d : bytes) (l : list (bytes * V)) : Prop := forall y, In y l -> cmp asc d (fst y) = Lt.

  Lemma beqb_refl' k : beqb k k = true. Proof. apply beqb_eq; auto. Qed.
  Lemma lt_neq a b : cmp asc a b = Lt -> beqb a b = false /\ beqb b a = false.
  Proof.
    intros H. split.
    - destruct (beqb a b) eqn:E; auto. apply beqb_eq in E; subst. rewrite cmp_refl in H; discriminate.
    - destruct (beqb b a) eqn:E; auto. apply beqb_eq in E; subst. rewrite cmp_refl in H; discriminate.
  Qed.
  Lemma assoc_below {V} d (l : list (bytes * V)) : below d l -> assoc l d = None.
  Proof.
    induction l as [|[k v] r IH]; simpl; auto. intros B.
    destruct (lt_neq d k (B (k, v) (or_introl eq_refl))) as [_ ->]. apply IH. intros y Hy; apply B; right; auto.
  Qed.
  Lemma below_trans {V} d d' (l : list (bytes * V)) : cmp asc d d' = Lt -> below d' l -> below d l.
  Proof. intros L B y Hy. eapply cmp_lt_trans; eauto. Qed.
  Lemma somes_in k v cac : In (k, v) (somes cac) -> In (k, Some v) cac.
  Proof.
    induction cac as [|[k0 [v0|]] r IH]; simpl; auto.
    - intros [E|H]; [inversion E; auto|auto].
  Qed.
  Lemma somes_sorted cac : dsorted cac -> dsorted (somes cac).
  Proof.
    induction cac as [|[k0 [v0|]] r IH]; simpl; auto; intros [B S]; auto.
    split; auto. intros [k v] Hy. apply somes_in in Hy. apply (B _ Hy).
  Qed.
  Lemma somes_assoc cac k : dsorted cac ->
    assoc (somes cac) k = match assoc cac k with Some (Some v) => Some v | _ => None end.
  Proof.
    induction cac as [|[k0 [v0|]] r IH]; simpl; auto; intros [B S].
    - destruct (beqb k0 k); auto.
    - rewrite IH by auto. destruct (beqb k0 k) eqn:E; auto. apply beqb_eq in E; subst.
      rewrite assoc_below; auto.
  Qed.
  Definition overlay_at (par : list (bytes * bytes)) (cac : list mem_item) (k : bytes) : option bytes :=
    match assoc cac k with Some (Some v) => Some v | Some None => None | None => assoc par k end.

  Lemma merge_spec_sem par : forall cac, dsorted par -> dsorted cac ->
    dsorted (merge_spec asc par cac) /\
    (forall k, assoc (merge_spec asc par cac) k = overlay_at par cac k) /\
    (forall d, below d par -> below d cac -> below d (merge_spec asc par cac)).
  Proof.
    induction par as [|[kp vp] pr IHp].
    - intros cac _ Sc. rewrite merge_spec_nil_l. split; [apply somes_sorted; auto|]. split.
      + intros k. unfold overlay_at. rewrite somes_assoc by auto. simpl. destruct (assoc cac k) as [[v|]|]; auto.
      + intros d _ Bc [k v] Hy. apply somes_in in Hy. apply (Bc _ Hy).
    - induction cac as [|[kc vc] cr IHc]; intros Sp Sc.
      + rewrite merge_spec_nil_r. split; [auto|split; [intros k; reflexivity|auto]].
      + rewrite merge_spec_cons. pose proof Sp as Sp0. pose proof Sc as Sc0.
        destruct Sp as [Bp Sp]. destruct Sc as [Bc Sc]. simpl in Bp, Bc.
        destruct (cmp asc kp kc) eqn:C.
        * apply cmp_eq in C; subst kc.
          destruct (IHp cr Sp Sc) as (S0 & A0 & B0).
          assert (LB : below kp (merge_spec asc pr cr)) by (apply B0; auto).
          assert (AK : forall k, assoc (ocons kp vc (merge_spec asc pr cr)) k = overlay_at ((kp, vp) :: pr) ((kp, vc) :: cr) k).
          { intros k. unfold overlay_at. simpl. destruct vc as [v|]; simpl; rewrite A0; unfold overlay_at;
            destruct (beqb kp k) eqn:E; auto.
            apply beqb_eq in E; subst. rewrite !assoc_below; auto. }
          destruct vc as [v|]; simpl ocons in *.
          -- split; [simpl; auto|]. split; auto.
             intros d Bdp Bdc y [<-|Hy]; [apply (Bdp (kp, vp)); simpl; auto|].
             eapply cmp_lt_trans; [apply (Bdp (kp, vp)); simpl; auto|apply LB; auto].
          -- split; auto. split; auto.
             intros d Bdp Bdc y Hy. eapply cmp_lt_trans; [apply (Bdp (kp, vp)); simpl; auto|apply LB; auto].
        * destruct (IHp ((kc, vc) :: cr) Sp Sc0) as (S0 & A0 & B0).
          assert (LB : below kp (merge_spec asc pr ((kc, vc) :: cr))).
          { apply B0; auto. intros y [<-|Hy]; auto. eapply cmp_lt_trans; eauto. }
          split; [simpl; auto|]. split.
          -- intros k. simpl. rewrite A0. unfold overlay_at. simpl.
             destruct (beqb kp k) eqn:E; auto. apply beqb_eq in E; subst.
             destruct (lt_neq _ _ C) as [_ ->]. rewrite (assoc_below k cr); auto.
             eapply below_trans; eauto.
          -- intros d Bdp Bdc y [<-|Hy]; [apply (Bdp (kp, vp)); simpl; auto|].
             eapply cmp_lt_trans; [apply (Bdp (kp, vp)); simpl; auto|apply LB; auto].
        * apply cmp_gt_lt in C.
          destruct (IHc Sp0 Sc) as (S0 & A0 & B0).
          assert (LB : below kc (merge_spec asc ((kp, vp) :: pr) cr)).
          { apply B0; auto. intros y [<-|Hy]; auto. eapply cmp_lt_trans; eauto. }
          assert (AK : forall k, assoc (ocons kc vc (merge_spec asc ((kp, vp) :: pr) cr)) k =
                                 overlay_at ((kp, vp) :: pr) ((kc, vc) :: cr) k).
          { intros k. unfold overlay_at. simpl.
            destruct vc as [v|]; simpl; rewrite ?A0; unfold overlay_at; simpl;
            destruct (beqb kc k) eqn:E; auto.
            apply beqb_eq in E; subst. rewrite (assoc_below k cr) by auto.
            destruct (lt_neq _ _ C) as [_ ->]. apply assoc_below. eapply below_trans; eauto. }
          destruct vc as [v|]; simpl ocons in *.
          -- split; [simpl; auto|]. split; auto.
             intros d Bdp Bdc y [<-|Hy]; [apply (Bdc (kc, Some v)); simpl; auto|].
             eapply cmp_lt_trans; [apply (Bdc (kc, Some v)); simpl; auto|apply LB; auto].
          -- split; auto. split; auto.
             intros d Bdp Bdc y Hy. eapply cmp_lt_trans; [apply (Bdc (kc, None)); simpl; auto|apply LB; auto].
  Qed.
End Sem.

(* C15 (iteration): what the merge iterator returns is sorted in the iteration direction
   (hence duplicate-free), never contains a deleted key, and maps every key to the cache's
   value if the cache has an entry and to the parent's value otherwise *)
Theorem merge_iterator_is_overlay asc par cac l :
  dsorted asc par -> dsorted asc cac -> merge_run par cac asc = Some l ->
  dsorted asc l /\ forall k, assoc l k = overlay_at par cac k.
Proof.
  intros Sp Sc E. rewrite merge_run_spec in E. injection E as <-.
  destruct (merge_spec_sem asc par cac Sp Sc) as (S & A & _). split; auto.
Qed.
Theorem merge_iterator_total asc par cac : exists l, merge_run par cac asc = Some l.
Proof. eexists; apply merge_run_spec. Qed.
