(* L2: rootmulti + iavl wrapper + transient store over an abstract versioned tree.
   The tendermint/iavl library is modelled by its contract: SaveVersion / DeleteVersion are one
   atomic DB batch each; LoadVersion(target) needs `target` itself to be present (target 0 = the
   newest present); versions newer than the loaded one stay on disk and SaveVersion onto an
   existing version is idempotent iff the content is the same. A root hash is modelled by the
   content it commits to (collision-free hash). Model only, no proofs. *)
From Coq Require Import List ZArith NArith Bool.
From PM Require Import Base.Bytes Store.KV.
Import ListNotations.
Local Open Scope Z_scope.

(* version-indexed association list (ascending) *)
Fixpoint vget {V} (m : list (Z * V)) (v : Z) : option V :=
  match m with [] => None | (v0, x) :: r => if v =? v0 then Some x else vget r v end.
Fixpoint vset {V} (m : list (Z * V)) (v : Z) (x : V) : list (Z * V) :=
  match m with
  | [] => [(v, x)]
  | (v0, y) :: r => if v =? v0 then (v, x) :: r else if v <? v0 then (v, x) :: m else (v0, y) :: vset r v x
  end.
Definition vdel {V} (m : list (Z * V)) (v : Z) : list (Z * V) := filter (fun p => negb (fst p =? v)) m.
Definition vmax {V} (m : list (Z * V)) : Z := fold_left (fun acc p => Z.max acc (fst p)) m 0.
Definition vhas {V} (m : list (Z * V)) (v : Z) : bool := match vget m v with Some _ => true | None => false end.

Fixpoint kv_eqb (a b : kv) : bool :=
  match a, b with
  | [], [] => true
  | (k1, v1) :: a', (k2, v2) :: b' => beqb k1 k2 && beqb v1 v2 && kv_eqb a' b'
  | _, _ => false
  end.

(* one IAVL-backed substore: what is on disk, and the in-memory working tree *)
Record tree := { t_disk : list (Z * kv);      (* saved versions *)
                 t_work : kv;                 (* working tree *)
                 t_ver : Z }.                 (* version the working tree is based on *)
Definition tree_empty : tree := {| t_disk := []; t_work := []; t_ver := 0 |}.

(* MutableTree.SaveVersion: [None] = error (version already saved to a different hash) *)
Definition save_version (t : tree) : option tree :=
  let v := t_ver t + 1 in
  match vget (t_disk t) v with
  | Some c => if kv_eqb c (t_work t) then Some {| t_disk := t_disk t; t_work := t_work t; t_ver := v |} else None
  | None => Some {| t_disk := vset (t_disk t) v (t_work t); t_work := t_work t; t_ver := v |}
  end.
(* MutableTree.DeleteVersion: refuses a missing version (ErrVersionDoesNotExist, ignored by the
   caller) and the latest one (an error the caller panics on) *)
Inductive dres := DelOk (t : tree) | DelMissing | DelLatest.
Definition delete_version (t : tree) (v : Z) : dres :=
  if negb (vhas (t_disk t) v) then DelMissing
  else if v =? t_ver t then DelLatest
  else DelOk {| t_disk := vdel (t_disk t) v; t_work := t_work t; t_ver := t_ver t |}.
(* MutableTree.LoadVersion(target): target 0 = newest on disk (or the empty tree) *)
Definition load_version (disk : list (Z * kv)) (target : Z) : option tree :=
  if target =? 0 then
    let v := vmax disk in
    match vget disk v with
    | Some c => Some {| t_disk := disk; t_work := c; t_ver := v |}
    | None => Some {| t_disk := disk; t_work := []; t_ver := 0 |}
    end
  else match vget disk target with
       | Some c => Some {| t_disk := disk; t_work := c; t_ver := target |}
       | None => None
       end.

(* iavl.Store.Commit: save, then the pruning rule *)
Record prune := { keep_recent : Z; keep_every : Z }.
Definition to_release (p : prune) (version : Z) : option Z :=
  let previous := version - 1 in
  if keep_recent p <? previous then
    let r := previous - keep_recent p in
    if (keep_every p =? 0) || negb (Z.rem r (keep_every p) =? 0) then Some r else None
  else None.
(* the atomic write units of one substore commit; [None] = panic *)
Definition store_commit (p : prune) (t : tree) : option (tree * list tree) :=   (* final tree, tree after each unit *)
  match save_version t with
  | None => None
  | Some t1 =>
    match to_release p (t_ver t1) with
    | None => Some (t1, [t1])
    | Some r => match delete_version t1 r with
                | DelOk t2 => Some (t2, [t1; t2])
                | DelMissing => Some (t1, [t1])
                | DelLatest => None
                end
    end
  end.

(* the multistore: named IAVL substores (in commit order) + commit infos + latest + transient stores *)
Definition hash := kv.                                    (* root hash of a substore = its content *)
Definition cinfo := list (bytes * (Z * hash)).            (* store name -> CommitID *)
Record mstore := { ms_trees : list (bytes * tree); ms_infos : list (Z * cinfo); ms_latest : Z;
                   ms_last : Z * cinfo;                   (* lastCommitID: version, hash (= the info it hashes) *)
                   ms_prune : prune; ms_transient : list (bytes * kv) }.

(* commitInfo.Hash sorts by name (SimpleHashFromMap): the hash is a function of the name-sorted infos *)
Fixpoint insert_info (x : bytes * (Z * hash)) (l : cinfo) : cinfo :=
  match l with
  | [] => [x]
  | y :: r => match bcompare (fst x) (fst y) with Gt => y :: insert_info x r | _ => x :: l end
  end.
Definition sort_infos (l : cinfo) : cinfo := fold_right insert_info [] l.

(* Commit with a crash budget: [budget] = number of write units that reach the disk (None = all).
   Returns the store as it is on disk + in memory afterwards; the in-memory part is meaningless
   after a crash (the process is gone) *)
Fixpoint commit_trees (p : prune) (ts : list (bytes * tree)) (budget : option nat)
  : option (list (bytes * tree) * cinfo * option nat * bool) :=       (* trees, infos, budget left, crashed *)
  match ts with
  | [] => Some ([], [], budget, false)
  | (name, t) :: r =>
    match store_commit p t with
    | None => None
    | Some (tfinal, units) =>
      let n := length units in
      match budget with
      | Some b =>
        if Nat.ltb b n then
          (* crash inside this substore: keep the tree as of unit b (or untouched) *)
          let t' := match b with O => t | S b' => nth b' units t end in
          Some ((name, t') :: r, [], Some O, true)
        else
          match commit_trees p r (Some (b - n)%nat) with
          | None => None
          | Some (r', infos, bl, crashed) => Some ((name, tfinal) :: r', (name, (t_ver tfinal, t_work tfinal)) :: infos, bl, crashed)
          end
      | None =>
        match commit_trees p r None with
        | None => None
        | Some (r', infos, bl, crashed) => Some ((name, tfinal) :: r', (name, (t_ver tfinal, t_work tfinal)) :: infos, bl, crashed)
        end
      end
    end
  end.
Definition commit (ms : mstore) (budget : option nat) : option (mstore * bool) :=   (* store, crashed *)
  let version := fst (ms_last ms) + 1 in
  match commit_trees (ms_prune ms) (ms_trees ms) budget with
  | None => None
  | Some (ts, infos, bl, crashed) =>
    let flush := match bl with Some O => false | _ => true end in
    if crashed || negb flush then
      Some ({| ms_trees := ts; ms_infos := ms_infos ms; ms_latest := ms_latest ms; ms_last := ms_last ms;
               ms_prune := ms_prune ms; ms_transient := ms_transient ms |}, true)
    else
      Some ({| ms_trees := ts; ms_infos := vset (ms_infos ms) version infos; ms_latest := version;
               ms_last := (version, sort_infos infos); ms_prune := ms_prune ms;
               ms_transient := map (fun p => (fst p, [])) (ms_transient ms) |}, false)
  end.

(* LoadVersion / LoadLatestVersion on what is on disk; [None] = error *)
Fixpoint load_trees (ts : list (bytes * tree)) (info : option cinfo) : option (list (bytes * tree)) :=
  match ts with
  | [] => Some []
  | (name, t) :: r =>
    let target := match info with
                  | Some ci => match find (fun p => beqb (fst p) name) ci with Some p => fst (snd p) | None => 0 end
                  | None => 0 end in
    match load_version (t_disk t) target, load_trees r info with
    | Some t', Some r' => Some ((name, t') :: r')
    | _, _ => None
    end
  end.
Definition load_ms (ms : mstore) (ver : Z) : option mstore :=
  if ver =? 0 then
    match load_trees (ms_trees ms) None with
    | Some ts => Some {| ms_trees := ts; ms_infos := ms_infos ms; ms_latest := ms_latest ms; ms_last := (0, []);
                         ms_prune := ms_prune ms; ms_transient := map (fun p => (fst p, [])) (ms_transient ms) |}
    | None => None
    end
  else match vget (ms_infos ms) ver with
       | None => None
       | Some ci =>
         match load_trees (ms_trees ms) (Some ci) with
         | Some ts => Some {| ms_trees := ts; ms_infos := ms_infos ms; ms_latest := ms_latest ms; ms_last := (ver, sort_infos ci);
                              ms_prune := ms_prune ms; ms_transient := map (fun p => (fst p, [])) (ms_transient ms) |}
         | None => None
         end
       end.
Definition reopen (ms : mstore) : option mstore := load_ms ms (ms_latest ms).

(* writes to the working trees *)
Fixpoint upd_tree (ts : list (bytes * tree)) (name : bytes) (f : kv -> kv) : list (bytes * tree) :=
  match ts with
  | [] => []
  | (n, t) :: r => if beqb n name then (n, {| t_disk := t_disk t; t_work := f (t_work t); t_ver := t_ver t |}) :: r
                   else (n, t) :: upd_tree r name f
  end.
Definition ms_set (ms : mstore) (name k v : bytes) : mstore :=
  {| ms_trees := upd_tree (ms_trees ms) name (fun m => aset m k v); ms_infos := ms_infos ms; ms_latest := ms_latest ms;
     ms_last := ms_last ms; ms_prune := ms_prune ms; ms_transient := ms_transient ms |}.
Definition ms_delete (ms : mstore) (name k : bytes) : mstore :=
  {| ms_trees := upd_tree (ms_trees ms) name (fun m => adel m k); ms_infos := ms_infos ms; ms_latest := ms_latest ms;
     ms_last := ms_last ms; ms_prune := ms_prune ms; ms_transient := ms_transient ms |}.
Definition ms_tset (ms : mstore) (name k v : bytes) : mstore :=
  {| ms_trees := ms_trees ms; ms_infos := ms_infos ms; ms_latest := ms_latest ms; ms_last := ms_last ms; ms_prune := ms_prune ms;
     ms_transient := map (fun p => if beqb (fst p) name then (fst p, aset (snd p) k v) else p) (ms_transient ms) |}.
(* SetPruning on a loaded store: stored in the root and pushed to every substore *)
Definition ms_set_pruning (ms : mstore) (p : prune) : mstore :=
  {| ms_trees := ms_trees ms; ms_infos := ms_infos ms; ms_latest := ms_latest ms; ms_last := ms_last ms; ms_prune := p;
     ms_transient := ms_transient ms |}.

(* iavl.Store.Query "/key" at an explicit height: the value committed at that height, or nothing
   if the height is not on disk (pruned or future) *)
Inductive qres := QValue (v : option bytes) | QNoVersion | QNoStore.
Definition ms_query (ms : mstore) (name key : bytes) (h : Z) : qres :=
  match find (fun p => beqb (fst p) name) (ms_trees ms) with
  | None => QNoStore
  | Some (_, t) =>
    let height := if h =? 0 then (if vhas (t_disk t) (t_ver t - 1) then t_ver t - 1 else t_ver t) else h in
    match vget (t_disk t) height with
    | Some c => QValue (aget c key)
    | None => QNoVersion
    end
  end.

(* Go iterates the substores in map order: the commit order is a parameter. [order] lists the
   names first committed; the rest follow. Afterwards the trees are put back in mount order. *)
Definition pick (ts : list (bytes * tree)) (name : bytes) : list (bytes * tree) :=
  filter (fun p => beqb (fst p) name) ts.
Definition reorder (ts : list (bytes * tree)) (order : list bytes) : list (bytes * tree) :=
  flat_map (pick ts) order ++ filter (fun p => negb (existsb (beqb (fst p)) order)) ts.
Definition restore (mount : list bytes) (ts : list (bytes * tree)) : list (bytes * tree) := flat_map (pick ts) mount.
Definition commit_in_order (ms : mstore) (order : list bytes) (budget : option nat) : option (mstore * bool) :=
  let mount := map fst (ms_trees ms) in
  let ms1 := {| ms_trees := reorder (ms_trees ms) order; ms_infos := ms_infos ms; ms_latest := ms_latest ms;
                ms_last := ms_last ms; ms_prune := ms_prune ms; ms_transient := ms_transient ms |} in
  match commit ms1 budget with
  | None => None
  | Some (ms2, crashed) =>
    Some ({| ms_trees := restore mount (ms_trees ms2); ms_infos := ms_infos ms2; ms_latest := ms_latest ms2;
             ms_last := ms_last ms2; ms_prune := ms_prune ms2; ms_transient := ms_transient ms2 |}, crashed)
  end.
Definition ms_init (names : list bytes) (p : prune) : mstore :=
  {| ms_trees := map (fun n => (n, tree_empty)) names; ms_infos := []; ms_latest := 0; ms_last := (0, []);
     ms_prune := p; ms_transient := [([116;114]%N, [])] |}.
