(* L0 model of the KVStore wrappers: dbadapter over MemDB (Base), cachekv (Cache), prefix
   (Prefix), gaskv (Gas), tracekv (Trace), transcribed from store/{cachekv,prefix,gaskv,
   tracekv,types} as coded. Keys and values are non-nil byte strings (nil key/value panics
   are outside the model); a deleted / absent value is [None]. Model only, no proofs. *)
From Coq Require Import List NArith Bool.
From PM Require Import Base.Bytes.
Import ListNotations.
Local Open Scope N_scope.

(* ---------- sorted association lists: the plain spec of an ordered KV store ---------- *)
Section AMap.
  Context {V : Type}.
  Definition amap := list (bytes * V).
  Fixpoint aget (m : amap) (k : bytes) : option V :=
    match m with
    | [] => None
    | (k0, v0) :: r => match bcompare k k0 with Eq => Some v0 | Lt => None | Gt => aget r k end
    end.
  Fixpoint aset (m : amap) (k : bytes) (v : V) : amap :=
    match m with
    | [] => [(k, v)]
    | (k0, v0) :: r => match bcompare k k0 with
                       | Eq => (k, v) :: r
                       | Lt => (k, v) :: m
                       | Gt => (k0, v0) :: aset r k v
                       end
    end.
  Fixpoint adel (m : amap) (k : bytes) : amap :=
    match m with
    | [] => []
    | (k0, v0) :: r => match bcompare k k0 with
                       | Eq => r
                       | Lt => m
                       | Gt => (k0, v0) :: adel r k
                       end
    end.
End AMap.
Arguments amap V : clear implicits.

Definition kv := amap bytes.

(* dbm.IsKeyInDomain: start <= key, and key < end unless end is nil *)
Definition in_domain (k s : bytes) (e : option bytes) : bool :=
  bleb s k && match e with None => true | Some e' => bltb k e' end.
Definition dir (asc : bool) {A} (l : list A) : list A := if asc then l else rev l.
(* MemDB.Iterator / ReverseIterator: the in-domain pairs, in iteration order *)
Definition kv_range {V} (m : amap V) (s : bytes) (e : option bytes) (asc : bool) : list (bytes * V) :=
  dir asc (filter (fun p => in_domain (fst p) s e) m).

(* ---------- store/types/utils.go ---------- *)
(* PrefixEndBytes: increment the last byte that is not 0xFF, dropping trailing 0xFF; nil if none *)
Fixpoint prefix_end_rev (r : bytes) : option bytes :=      (* argument and result reversed *)
  match r with
  | [] => None
  | x :: r' => if x =? 255 then prefix_end_rev r' else Some ((x + 1) :: r')
  end.
Definition prefix_end_bytes (p : bytes) : option bytes :=
  match p with
  | [] => None
  | _ => match prefix_end_rev (rev p) with Some r => Some (rev r) | None => None end
  end.
Definition inclusive_end_bytes (b : bytes) : bytes := b ++ [0].

(* ---------- gas (store/types/gas.go) ---------- *)
Definition max_u64 : N := 18446744073709551615.
Record gascfg := { g_has : N; g_delete : N; g_read_flat : N; g_read_byte : N;
                   g_write_flat : N; g_write_byte : N; g_iter_flat : N }.
Inductive pkind := POutOfGas | PGasOverflow | PInvalidIter | POther.
Inductive res (A : Type) := Ok (a : A) | Panic (k : pkind).
Arguments Ok {A} a. Arguments Panic {A} k.

(* trace line: operation tag (0 write 1 read 2 delete 3 iterKey 4 iterValue), key, value *)
Definition tline := (N * bytes * bytes)%type.
Record world := { w_limit : option N;            (* None: infinite gas meter *)
                  w_consumed : N;
                  w_trace : list tline;          (* newest first *)
                  w_cfg : gascfg }.
Definition set_consumed (w : world) (c : N) : world :=
  {| w_limit := w_limit w; w_consumed := c; w_trace := w_trace w; w_cfg := w_cfg w |}.
Definition log (w : world) (l : tline) : world :=
  {| w_limit := w_limit w; w_consumed := w_consumed w; w_trace := l :: w_trace w; w_cfg := w_cfg w |}.

(* ConsumeGas: addUint64Overflow zeroes the total and reports overflow; otherwise the total is
   stored and compared with the limit *)
Definition consume (amount : N) (w : world) : res unit * world :=
  if max_u64 - w_consumed w <? amount then (Panic PGasOverflow, set_consumed w 0)
  else let c := w_consumed w + amount in
       let w' := set_consumed w c in
       match w_limit w with
       | Some lim => if lim <? c then (Panic POutOfGas, w') else (Ok tt, w')
       | None => (Ok tt, w')
       end.
(* uint64 multiplication wraps *)
Definition mul64 (a b : N) : N := (a * b) mod 18446744073709551616.
Definition blen (b : bytes) : N := N.of_nat (length b).
Definition olen (b : option bytes) : N := match b with Some x => blen x | None => 0 end.

(* ---------- cachekv ---------- *)
Record centry := { ce_val : option bytes; ce_deleted : bool; ce_dirty : bool }.
Definition mem_item := (bytes * option bytes)%type.      (* cmn.KVPair: nil value = deleted *)
Record cstate := { c_cache : amap centry;
                   c_unsorted : amap unit;               (* unsortedCache, as a key set *)
                   c_sorted : list mem_item }.           (* sortedCache linked list *)
Definition c_empty : cstate := {| c_cache := []; c_unsorted := []; c_sorted := [] |}.

(* setCacheValue *)
Definition set_cache_value (c : cstate) (k : bytes) (v : option bytes) (deleted dirty : bool) : cstate :=
  {| c_cache := aset (c_cache c) k {| ce_val := v; ce_deleted := deleted; ce_dirty := dirty |};
     c_unsorted := if dirty then aset (c_unsorted c) k tt else c_unsorted c;
     c_sorted := c_sorted c |}.

(* dirtyItems: the merge of the (sorted) in-domain unsorted items into the sorted list,
   as the loop is coded: insert before on <, advance on >, replace on = ; rest pushed back *)
Fixpoint merge_dirty (un : list mem_item) : list mem_item -> list mem_item :=
  fix go (so : list mem_item) : list mem_item :=
    match un, so with
    | [], _ => so
    | _, [] => un
    | u :: un', s :: so' =>
      match bcompare (fst u) (fst s) with
      | Lt => u :: merge_dirty un' so
      | Gt => s :: go so'
      | Eq => u :: merge_dirty un' so'
      end
    end.
Definition cache_val (c : cstate) (k : bytes) : option bytes :=
  match aget (c_cache c) k with Some e => ce_val e | None => None end.
Definition dirty_items (c : cstate) (s : bytes) (e : option bytes) : cstate :=
  let moved := filter (fun p => in_domain (fst p) s e) (c_unsorted c) in
  let un := map (fun p => (fst p, cache_val c (fst p))) moved in
  {| c_cache := c_cache c;
     c_unsorted := filter (fun p => negb (in_domain (fst p) s e)) (c_unsorted c);
     c_sorted := merge_dirty un (c_sorted c) |}.
(* newMemIterator: scan with the entered/break shortcut *)
Fixpoint mem_scan (entered : bool) (s : bytes) (e : option bytes) (l : list mem_item) : list mem_item :=
  match l with
  | [] => []
  | it :: r => if in_domain (fst it) s e then it :: mem_scan true s e r
               else if entered then [] else mem_scan false s e r
  end.
Definition mem_items (c : cstate) (s : bytes) (e : option bytes) (asc : bool) : list mem_item :=
  dir asc (mem_scan false s e (c_sorted c)).

(* ---------- cacheMergeIterator, as a state machine over the two remaining sequences ---------- *)
Definition cmp (asc : bool) (a b : bytes) : comparison :=
  if asc then bcompare a b else CompOpp (bcompare a b).
Record miter := { mi_par : list (bytes * bytes); mi_cac : list mem_item; mi_asc : bool }.
Definition mk_miter p c a := {| mi_par := p; mi_cac := c; mi_asc := a |}.

(* skipCacheDeletes(until) *)
Fixpoint skip_cache_deletes (asc : bool) (until : option bytes) (cac : list mem_item) : list mem_item :=
  match cac with
  | (k, None) :: r =>
    match until with
    | None => skip_cache_deletes asc until r
    | Some u => match cmp asc k u with Lt => skip_cache_deletes asc until r | _ => cac end
    end
  | _ => cac
  end.
(* skipUntilExistsOrInvalid: returns the new state and validity; [None] = out of fuel *)
Fixpoint skip_until (fuel : nat) (it : miter) : option (miter * bool) :=
  match fuel with
  | O => None
  | S f =>
    match mi_par it with
    | [] => let c := skip_cache_deletes (mi_asc it) None (mi_cac it) in
            Some (mk_miter [] c (mi_asc it), match c with [] => false | _ => true end)
    | (kp, vp) :: pr =>
      match mi_cac it with
      | [] => Some (it, true)
      | (kc, vc) :: cr =>
        match cmp (mi_asc it) kp kc with
        | Lt => Some (it, true)
        | Eq => match vc with
                | None => skip_until f (mk_miter pr cr (mi_asc it))
                | Some _ => Some (it, true)
                end
        | Gt => match vc with
                | None => skip_until f (mk_miter (mi_par it)
                                          (skip_cache_deletes (mi_asc it) (Some kp) (mi_cac it)) (mi_asc it))
                | Some _ => Some (it, true)
                end
        end
      end
    end
  end.
(* Key/Value at a valid position (after skipping) *)
Definition m_current (it : miter) : option (bytes * option bytes) :=
  match mi_par it, mi_cac it with
  | [], (kc, vc) :: _ => Some (kc, vc)
  | (kp, vp) :: _, [] => Some (kp, Some vp)
  | (kp, vp) :: _, (kc, vc) :: _ =>
    match cmp (mi_asc it) kp kc with
    | Lt => Some (kp, Some vp)
    | Eq => Some (kp, vc)
    | Gt => Some (kc, vc)
    end
  | [], [] => None
  end.
(* Next at a valid position *)
Definition m_next (it : miter) : miter :=
  match mi_par it, mi_cac it with
  | [], _ :: cr => mk_miter [] cr (mi_asc it)
  | _ :: pr, [] => mk_miter pr [] (mi_asc it)
  | (kp, _) :: pr, (kc, _) :: cr =>
    match cmp (mi_asc it) kp kc with
    | Lt => mk_miter pr (mi_cac it) (mi_asc it)
    | Eq => mk_miter pr cr (mi_asc it)
    | Gt => mk_miter (mi_par it) cr (mi_asc it)
    end
  | [], [] => it
  end.
(* for ; it.Valid(); it.Next() { collect (Key, Value) } *)
Fixpoint m_collect (fuel : nat) (it : miter) : option (list (bytes * bytes)) :=
  match fuel with
  | O => None
  | S f =>
    let sf := S (length (mi_par it) + length (mi_cac it)) in
    match skip_until sf it with
    | None => None
    | Some (it1, false) => Some []
    | Some (it1, true) =>
      (* Key() and Value() skip again (idempotent) and read the current position *)
      match m_current it1 with
      | Some (k, Some v) =>
        match m_collect f (m_next it1) with Some r => Some ((k, v) :: r) | None => None end
      | _ => None            (* a valid position always has a value: excluded by the theorems *)
      end
    end
  end.
Definition merge_run (par : list (bytes * bytes)) (cac : list mem_item) (asc : bool) : option (list (bytes * bytes)) :=
  m_collect (S (length par + length cac)) (mk_miter par cac asc).

(* ---------- the store tree ---------- *)
Inductive store :=
| Base (m : kv)
| Cache (c : cstate) (p : store)
| Prefix (pfx : bytes) (p : store)
| Gas (p : store)
| Trace (p : store).

(* iterators of the effect-free stores are evaluated at creation (MemDB snapshots its keys,
   memIterator its items; the parent is not modified while an iterator is open); the
   wrappers with effects per step stay objects *)
Inductive iter :=
| IList (items : list (bytes * bytes))
| IPrefix (pfx : bytes) (valid : bool) (inner : iter)
| IGas (inner : iter)
| ITrace (inner : iter).

Definition strip (pfx k : bytes) : bytes := skipn (length pfx) k.

Definition bind {A B} (x : res A * world) (f : A -> world -> res B * world) : res B * world :=
  match x with (Ok a, w) => f a w | (Panic k, w) => (Panic k, w) end.

(* iterator methods: (result, iterator', world') *)
Fixpoint it_valid (it : iter) : bool :=
  match it with
  | IList l => match l with [] => false | _ => true end
  | IPrefix _ v inner => v && it_valid inner
  | IGas inner => it_valid inner
  | ITrace inner => it_valid inner
  end.
Fixpoint it_key (it : iter) (w : world) : res bytes * world :=
  match it with
  | IList l => match l with [] => (Panic PInvalidIter, w) | (k, _) :: _ => (Ok k, w) end
  | IPrefix pfx v inner =>
    if v then bind (it_key inner w) (fun k w' => (Ok (strip pfx k), w')) else (Panic PInvalidIter, w)
  | IGas inner => it_key inner w
  | ITrace inner => bind (it_key inner w) (fun k w' => (Ok k, log w' (3, k, [])))
  end.
Fixpoint it_value (it : iter) (w : world) : res bytes * world :=
  match it with
  | IList l => match l with [] => (Panic PInvalidIter, w) | (_, v) :: _ => (Ok v, w) end
  | IPrefix pfx v inner => if v then it_value inner w else (Panic PInvalidIter, w)
  | IGas inner => it_value inner w
  | ITrace inner => bind (it_value inner w) (fun v w' => (Ok v, log w' (4, [], v)))
  end.
(* consumeSeekGas: value per byte, then the flat step cost *)
Definition seek_gas (inner : iter) (w : world) : res unit * world :=
  bind (it_value inner w) (fun v w1 =>
  bind (consume (mul64 (g_read_byte (w_cfg w1)) (blen v)) w1) (fun _ w2 =>
  consume (g_iter_flat (w_cfg w2)) w2)).
Fixpoint it_next (it : iter) (w : world) : res unit * iter * world :=
  match it with
  | IList l => match l with [] => (Panic PInvalidIter, it, w) | _ :: r => (Ok tt, IList r, w) end
  | IPrefix pfx v inner =>
    if v then
      match it_next inner w with
      | (Ok _, inner', w') =>
        if it_valid inner' then
          match it_key inner' w' with
          | (Ok k, w'') => (Ok tt, IPrefix pfx (has_prefix pfx k) inner', w'')
          | (Panic p, w'') => (Panic p, IPrefix pfx v inner', w'')
          end
        else (Ok tt, IPrefix pfx false inner', w')
      | (Panic p, inner', w') => (Panic p, IPrefix pfx v inner', w')
      end
    else (Panic PInvalidIter, it, w)
  | IGas inner =>
    let '(r, w1) := if it_valid inner then seek_gas inner w else (Ok tt, w) in
    match r with
    | Ok _ => let '(r2, inner', w2) := it_next inner w1 in (r2, IGas inner', w2)
    | Panic p => (Panic p, it, w1)
    end
  | ITrace inner => let '(r, inner', w') := it_next inner w in (r, ITrace inner', w')
  end.

(* drain an effect-free iterator (the parent iterator of a cache store) *)
Fixpoint drain (it : iter) : list (bytes * bytes) :=
  match it with
  | IList l => l
  | IPrefix pfx v inner =>
    if v then
      (fix take (l : list (bytes * bytes)) :=
         match l with
         | (k, x) :: r => if has_prefix pfx k then (strip pfx k, x) :: take r else []
         | [] => []
         end) (drain inner)
    else []
  | IGas inner => []          (* not supported below a cache store: gaskv cannot be cache-wrapped *)
  | ITrace inner => []        (* cache over trace: iteration not modelled *)
  end.

(* ---------- store operations ---------- *)
Fixpoint s_get (s : store) (k : bytes) (w : world) : res (option bytes) * store * world :=
  match s with
  | Base m => (Ok (aget m k), s, w)
  | Cache c p =>
    match aget (c_cache c) k with
    | Some e => (Ok (ce_val e), s, w)
    | None =>
      match s_get p k w with
      | (Ok v, p', w') => (Ok v, Cache (set_cache_value c k v false false) p', w')
      | (Panic x, p', w') => (Panic x, Cache c p', w')
      end
    end
  | Prefix pfx p => let '(r, p', w') := s_get p (pfx ++ k) w in (r, Prefix pfx p', w')
  | Gas p =>
    match consume (g_read_flat (w_cfg w)) w with
    | (Panic x, w1) => (Panic x, s, w1)
    | (Ok _, w1) =>
      match s_get p k w1 with
      | (Ok v, p', w2) =>
        match consume (mul64 (g_read_byte (w_cfg w2)) (olen v)) w2 with
        | (Ok _, w3) => (Ok v, Gas p', w3)
        | (Panic x, w3) => (Panic x, Gas p', w3)
        end
      | (Panic x, p', w2) => (Panic x, Gas p', w2)
      end
    end
  | Trace p =>
    match s_get p k w with
    | (Ok v, p', w') => (Ok v, Trace p', log w' (1, k, match v with Some x => x | None => [] end))
    | (Panic x, p', w') => (Panic x, Trace p', w')
    end
  end.

Fixpoint s_has (s : store) (k : bytes) (w : world) : res bool * store * world :=
  match s with
  | Base m => (Ok (match aget m k with Some _ => true | None => false end), s, w)
  | Cache c p =>                                  (* Has = Get != nil *)
    match aget (c_cache c) k with
    | Some e => (Ok (match ce_val e with Some _ => true | None => false end), s, w)
    | None =>
      match s_get p k w with
      | (Ok v, p', w') => (Ok (match v with Some _ => true | None => false end),
                           Cache (set_cache_value c k v false false) p', w')
      | (Panic x, p', w') => (Panic x, Cache c p', w')
      end
    end
  | Prefix pfx p => let '(r, p', w') := s_has p (pfx ++ k) w in (r, Prefix pfx p', w')
  | Gas p =>
    match consume (g_has (w_cfg w)) w with
    | (Panic x, w1) => (Panic x, s, w1)
    | (Ok _, w1) => let '(r, p', w2) := s_has p k w1 in (r, Gas p', w2)
    end
  | Trace p => let '(r, p', w') := s_has p k w in (r, Trace p', w')      (* Has is not traced *)
  end.

Fixpoint s_set (s : store) (k v : bytes) (w : world) : res unit * store * world :=
  match s with
  | Base m => (Ok tt, Base (aset m k v), w)
  | Cache c p => (Ok tt, Cache (set_cache_value c k (Some v) false true) p, w)
  | Prefix pfx p => let '(r, p', w') := s_set p (pfx ++ k) v w in (r, Prefix pfx p', w')
  | Gas p =>
    match consume (g_write_flat (w_cfg w)) w with
    | (Panic x, w1) => (Panic x, s, w1)
    | (Ok _, w1) =>
      match consume (mul64 (g_write_byte (w_cfg w1)) (blen v)) w1 with
      | (Panic x, w2) => (Panic x, s, w2)
      | (Ok _, w2) => let '(r, p', w3) := s_set p k v w2 in (r, Gas p', w3)
      end
    end
  | Trace p => let '(r, p', w') := s_set p k v (log w (0, k, v)) in (r, Trace p', w')
  end.

Fixpoint s_delete (s : store) (k : bytes) (w : world) : res unit * store * world :=
  match s with
  | Base m => (Ok tt, Base (adel m k), w)
  | Cache c p => (Ok tt, Cache (set_cache_value c k None true true) p, w)
  | Prefix pfx p => let '(r, p', w') := s_delete p (pfx ++ k) w in (r, Prefix pfx p', w')
  | Gas p =>
    match consume (g_delete (w_cfg w)) w with
    | (Panic x, w1) => (Panic x, s, w1)
    | (Ok _, w1) => let '(r, p', w2) := s_delete p k w1 in (r, Gas p', w2)
    end
  | Trace p => let '(r, p', w') := s_delete p k (log w (2, k, [])) in (r, Trace p', w')
  end.

(* Iterator / ReverseIterator *)
Fixpoint s_iter (s : store) (st : bytes) (en : option bytes) (asc : bool) (w : world)
  : res iter * store * world :=
  match s with
  | Base m => (Ok (IList (kv_range m st en asc)), s, w)
  | Cache c p =>
    match s_iter p st en asc w with
    | (Ok ip, p', w') =>
      let c' := dirty_items c st en in
      match merge_run (drain ip) (mem_items c' st en asc) asc with
      | Some l => (Ok (IList l), Cache c' p', w')
      | None => (Panic POther, Cache c' p', w')
      end
    | (Panic x, p', w') => (Panic x, Cache c p', w')
    end
  | Prefix pfx p =>
    let newend := match en with None => prefix_end_bytes pfx | Some e => Some (pfx ++ e) end in
    match s_iter p (pfx ++ st) newend asc w with
    | (Ok ip, p', w') =>
      if it_valid ip then
        match it_key ip w' with
        | (Ok k, w'') => (Ok (IPrefix pfx (has_prefix pfx k) ip), Prefix pfx p', w'')
        | (Panic x, w'') => (Panic x, Prefix pfx p', w'')
        end
      else (Ok (IPrefix pfx false ip), Prefix pfx p', w')
    | (Panic x, p', w') => (Panic x, Prefix pfx p', w')
    end
  | Gas p =>
    match s_iter p st en asc w with
    | (Ok ip, p', w') =>
      if it_valid ip then
        match seek_gas ip w' with
        | (Ok _, w'') => (Ok (IGas ip), Gas p', w'')
        | (Panic x, w'') => (Panic x, Gas p', w'')
        end
      else (Ok (IGas ip), Gas p', w')
    | (Panic x, p', w') => (Panic x, Gas p', w')
    end
  | Trace p => let '(r, p', w') := s_iter p st en asc w in
               (match r with Ok ip => Ok (ITrace ip) | Panic x => Panic x end, Trace p', w')
  end.

(* cachekv.Store.Write on the outermost cache layer at depth [d] below effect-free wrappers:
   dirty entries in key order: delete / skip nil / set, then the cache is cleared *)
Fixpoint write_entries (es : amap centry) (p : store) (w : world) : res unit * store * world :=
  match es with
  | [] => (Ok tt, p, w)
  | (k, e) :: r =>
    if ce_dirty e then
      let '(res1, p1, w1) :=
        if ce_deleted e then s_delete p k w
        else match ce_val e with
             | None => (Ok tt, p, w)
             | Some v => s_set p k v w
             end in
      match res1 with
      | Ok _ => write_entries r p1 w1
      | Panic x => (Panic x, p1, w1)
      end
    else write_entries r p w
  end.
Definition c_write (s : store) (w : world) : res unit * store * world :=
  match s with
  | Cache c p =>
    match write_entries (c_cache c) p w with
    | (Ok _, p', w') => (Ok tt, Cache c_empty p', w')
    | (Panic x, p', w') => (Panic x, Cache c p', w')
    end
  | _ => (Ok tt, s, w)
  end.

(* apply an operation to the store [d] wrappers below the top (the harness addresses layers) *)
Fixpoint at_depth {A} (d : nat) (f : store -> world -> res A * store * world) (s : store) (w : world)
  : res A * store * world :=
  match d with
  | O => f s w
  | S d' =>
    match s with
    | Base _ => f s w
    | Cache c p => let '(r, p', w') := at_depth d' f p w in (r, Cache c p', w')
    | Prefix pfx p => let '(r, p', w') := at_depth d' f p w in (r, Prefix pfx p', w')
    | Gas p => let '(r, p', w') := at_depth d' f p w in (r, Gas p', w')
    | Trace p => let '(r, p', w') := at_depth d' f p w in (r, Trace p', w')
    end
  end.

(* for ; it.Valid(); it.Next() { Key(); Value() } : returns the collected pairs *)
Fixpoint it_collect (fuel : nat) (it : iter) (w : world) (acc : list (bytes * bytes))
  : res (list (bytes * bytes)) * world :=
  match fuel with
  | O => (Panic POther, w)
  | S f =>
    if it_valid it then
      match it_key it w with
      | (Panic x, w1) => (Panic x, w1)
      | (Ok k, w1) =>
        match it_value it w1 with
        | (Panic x, w2) => (Panic x, w2)
        | (Ok v, w2) =>
          match it_next it w2 with
          | (Panic x, _, w3) => (Panic x, w3)
          | (Ok _, it', w3) => it_collect f it' w3 ((k, v) :: acc)
          end
        end
      end
    else (Ok (rev acc), w)
  end.
Fixpoint it_size (it : iter) : nat :=
  match it with
  | IList l => length l
  | IPrefix _ _ i => it_size i
  | IGas i => it_size i
  | ITrace i => it_size i
  end.
Definition s_iter_all (s : store) (st : bytes) (en : option bytes) (asc : bool) (w : world)
  : res (list (bytes * bytes)) * store * world :=
  match s_iter s st en asc w with
  | (Ok it, s', w') => let '(r, w'') := it_collect (S (it_size it)) it w' [] in (r, s', w'')
  | (Panic x, s', w') => (Panic x, s', w')
  end.
Definition kv_gas_config : gascfg :=
  {| g_has := 1000; g_delete := 1000; g_read_flat := 1000; g_read_byte := 3;
     g_write_flat := 2000; g_write_byte := 30; g_iter_flat := 30 |}.
