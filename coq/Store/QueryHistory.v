(* C14 over whole histories of the multistore: once a height h has been committed, a query at h answers with
   the value committed at h or with "no such version" (after pruning released it) — never with data of another
   height — whatever is written, deleted, committed or re-configured afterwards, for any number of substores. *)
From Coq Require Import List ZArith NArith Bool Lia.
From PM Require Import Base.Bytes Store.KV Store.MergeProofs Store.RootMulti Store.RootMultiProofs.
Import ListNotations.
Local Open Scope Z_scope.

Inductive mop :=
| MSet (n k v : bytes) | MDelete (n k : bytes) | MTSet (n k v : bytes) | MSetPruning (p : prune) | MCommit.
Definition mstep (ms : mstore) (o : mop) : option mstore :=
  match o with
  | MSet n k v => Some (ms_set ms n k v)
  | MDelete n k => Some (ms_delete ms n k)
  | MTSet n k v => Some (ms_tset ms n k v)
  | MSetPruning p => Some (ms_set_pruning ms p)
  | MCommit => match commit ms None with Some (ms', _) => Some ms' | None => None end
  end.
Fixpoint mrun (ops : list mop) (ms : mstore) : option mstore :=
  match ops with [] => Some ms | o :: r => match mstep ms o with Some ms' => mrun r ms' | None => None end end.

(* what height h of one substore may look like from the moment it was committed with content c *)
Definition frozen (h : Z) (c : kv) (t : tree) : Prop :=
  h <= t_ver t /\ (vget (t_disk t) h = Some c \/ vget (t_disk t) h = None).
(* every substore, with the content ITS version h was committed with *)
Definition all_frozen (h : Z) (cs : list (bytes * kv)) (ts : list (bytes * tree)) : Prop :=
  map fst ts = map fst cs /\ forall n t c, In ((n, t), (n, c)) (combine ts cs) -> frozen h c t.

Lemma store_commit_frozen p t tf units h c : store_commit p t = Some (tf, units) -> frozen h c t -> frozen h c tf.
Proof.
  intros E [Hle Hv].
  assert (V : t_ver tf = t_ver t + 1).
  { unfold store_commit in E. destruct (save_version t) as [t1|] eqn:Es; [|discriminate].
    destruct (save_version_spec _ _ Es) as (V1 & _).
    destruct (to_release p (t_ver t1)) as [r|]; [|injection E as <- _; auto].
    destruct (delete_version t1 r) as [t2| |] eqn:Ed; try discriminate; injection E as <- _; auto.
    destruct (delete_version_ok _ _ _ Ed) as (_ & Dv & _). rewrite Dv. auto. }
  split; [lia|].
  destruct (to_release p (t_ver t + 1)) as [r|] eqn:Er.
  - destruct (Z.eq_dec r h) as [->|N].
    + right. eapply store_commit_released_gone; eauto.
    + rewrite (store_commit_keeps_other_versions p t tf units h E); [exact Hv|lia|congruence].
  - rewrite (store_commit_keeps_other_versions p t tf units h E); [exact Hv|lia|congruence].
Qed.

Lemma commit_trees_frozen p h : forall ts cs ts' infos bl cr, commit_trees p ts None = Some (ts', infos, bl, cr) ->
  all_frozen h cs ts -> all_frozen h cs ts'.
Proof.
  induction ts as [|[n t] r IH]; intros cs ts' infos bl cr E [Hn Hf].
  - cbn in E. injection E as <- _ _ _. split; auto.
  - cbn [commit_trees] in E. destruct (store_commit p t) as [[tf units]|] eqn:Es; [|discriminate].
    destruct (commit_trees p r None) as [[[[r' infos'] bl'] cr']|] eqn:Er; [|discriminate]. injection E as <- _ _ _.
    destruct cs as [|[n' c] cs]; [discriminate|]. cbn [map fst] in Hn. injection Hn as -> Hn.
    assert (Hr : all_frozen h cs r).
    { split; auto. intros m u d I. apply (Hf m u d). right. exact I. }
    destruct (IH cs r' infos' bl' cr' eq_refl Hr) as [Hn' Hf'].
    split; [cbn [map fst]; congruence|].
    intros m u d [I|I].
    + inversion I; subst. eapply store_commit_frozen; eauto. eapply Hf. left. reflexivity.
    + apply (Hf' m u d I).
Qed.

Lemma upd_tree_frozen h cs : forall ts name f, all_frozen h cs ts -> all_frozen h cs (upd_tree ts name f).
Proof.
  intros ts. revert cs. induction ts as [|[n t] r IH]; intros cs name f [Hn Hf]; [split; auto|].
  destruct cs as [|[n' c] cs]; [discriminate|]. cbn [map fst] in Hn. injection Hn as -> Hn.
  cbn [upd_tree]. destruct (beqb n' name).
  - split; [cbn [map fst]; congruence|]. intros m u d [I|I].
    + inversion I; subst. destruct (Hf _ t _ (or_introl eq_refl)) as [A B]. split; auto.
    + apply (Hf m u d). right. exact I.
  - assert (Hr : all_frozen h cs r) by (split; auto; intros m u d I; apply (Hf m u d); right; exact I).
    destruct (IH cs name f Hr) as [Hn' Hf']. split; [cbn [map fst]; congruence|].
    intros m u d [I|I]; [inversion I; subst; eapply Hf; left; reflexivity|apply (Hf' m u d I)].
Qed.

Lemma mstep_frozen h cs ms o ms' : mstep ms o = Some ms' -> all_frozen h cs (ms_trees ms) -> all_frozen h cs (ms_trees ms').
Proof.
  destruct o; cbn [mstep]; try (intros [= <-]; cbn [ms_trees ms_set ms_delete ms_tset ms_set_pruning]; auto using upd_tree_frozen).
  unfold commit. destruct (commit_trees (ms_prune ms) (ms_trees ms) None) as [[[[ts infos] bl] cr]|] eqn:E; [|discriminate].
  intros H F. assert (G : all_frozen h cs ts) by (eapply commit_trees_frozen; eauto).
  destruct (cr || negb match bl with Some O => false | _ => true end); injection H as <-; exact G.
Qed.
Theorem mrun_frozen h cs ops : forall ms ms', mrun ops ms = Some ms' -> all_frozen h cs (ms_trees ms) -> all_frozen h cs (ms_trees ms').
Proof.
  induction ops as [|o r IH]; intros ms ms' E F; [injection E as <-; exact F|].
  cbn [mrun] in E. destruct (mstep ms o) as [ms1|] eqn:E1; [|discriminate]. eapply IH; eauto. eapply mstep_frozen; eauto.
Qed.

(* the contents the substores are committed with: right after a completed commit every substore is frozen at its
   own version with its working content *)
Definition committed_contents (ts : list (bytes * tree)) : list (bytes * kv) := map (fun p => (fst p, t_work (snd p))) ts.

Lemma find_frozen h cs : forall ts name t, all_frozen h cs ts -> find (fun p => beqb (fst p) name) ts = Some (name, t) ->
  exists c, find (fun p => beqb (fst p) name) cs = Some (name, c) /\ frozen h c t.
Proof.
  intros ts. revert cs. induction ts as [|[n u] r IH]; intros cs name t [Hn Hf] E; [discriminate|].
  destruct cs as [|[n' c] cs]; [discriminate|]. cbn [map fst] in Hn. injection Hn as -> Hn.
  cbn [find fst] in E |- *. destruct (beqb n' name) eqn:B.
  - injection E as <- <-. exists c. split; auto. apply (Hf n' u c). left. reflexivity.
  - apply (IH cs name t); auto. split; auto. intros m w d I. apply (Hf m w d). right. exact I.
Qed.

(* the reading: a query at h answers with the committed value or with "no such version", nothing else *)
Theorem query_after_any_history h cs ops ms ms' name key : h <> 0 ->
  all_frozen h cs (ms_trees ms) -> mrun ops ms = Some ms' ->
  match find (fun p => beqb (fst p) name) cs with
  | Some (_, c) => ms_query ms' name key h = QValue (aget c key) \/ ms_query ms' name key h = QNoVersion
  | None => ms_query ms' name key h = QNoStore
  end.
Proof.
  intros Hh F E. pose proof (mrun_frozen h cs ops ms ms' E F) as F'.
  destruct (find (fun p => beqb (fst p) name) (ms_trees ms')) as [[n t]|] eqn:Ef.
  - assert (n = name) by (apply find_some in Ef; destruct Ef as [_ B]; apply beqb_eq in B; exact B). subst n.
    destruct (find_frozen h cs _ name t F' Ef) as (c & Ec & [_ [Hv|Hv]]); rewrite Ec.
    + left. eapply query_reads_committed; eauto.
    + right. eapply query_pruned_or_future_returns_nothing; eauto.
  - (* no such store: the two name lists coincide *)
    destruct F' as [Hn _].
    assert (N : forall (A B : Type) (l1 : list (bytes * A)) (l2 : list (bytes * B)), map fst l1 = map fst l2 ->
                find (fun p => beqb (fst p) name) l1 = None -> find (fun p => beqb (fst p) name) l2 = None).
    { intros A B l1. induction l1 as [|[a x] l1 IH1]; intros [|[b y] l2] Hm Hf; try discriminate; auto.
      cbn [map fst] in Hm. injection Hm as -> Hm. cbn [find fst] in Hf |- *. destruct (beqb b name); [discriminate|]. eauto. }
    rewrite (N _ _ _ _ Hn Ef). unfold ms_query. rewrite Ef. reflexivity.
Qed.

(* non-vacuity of the premise: a store whose every substore has h on disk with its recorded content is frozen at h *)
Lemma all_frozen_intro h ts : (forall n t, In (n, t) ts -> h <= t_ver t) ->
  all_frozen h (map (fun p => (fst p, match vget (t_disk (snd p)) h with Some c => c | None => [] end)) ts) ts.
Proof.
  intros H. split; [rewrite map_map; reflexivity|].
  induction ts as [|[n t] r IH]; [intros ? ? ? []|].
  intros m u d [I|I].
  - inversion I; subst. cbn [fst snd]. split; [eapply H; left; reflexivity|].
    destruct (vget (t_disk u) h); auto.
  - apply (IH (fun n0 t0 I0 => H n0 t0 (or_intror I0)) m u d I).
Qed.

(* ---------- C12: a version the pruning policy retains stays readable, with exactly the committed content ---------- *)
(* a policy never releases version h *)
Definition never_releases (p : prune) (h : Z) : Prop := forall v, to_release p v <> Some h.
(* the policies a history runs under: the one in force and every one set later *)
Fixpoint policies_ok (h : Z) (p : prune) (ops : list mop) : Prop :=
  match ops with
  | [] => never_releases p h
  | MSetPruning p' :: r => never_releases p h /\ policies_ok h p' r
  | _ :: r => policies_ok h p r
  end.
Definition kept (h : Z) (c : kv) (t : tree) : Prop := h <= t_ver t /\ vget (t_disk t) h = Some c.
Definition all_kept (h : Z) (cs : list (bytes * kv)) (ts : list (bytes * tree)) : Prop :=
  map fst ts = map fst cs /\ forall n t c, In ((n, t), (n, c)) (combine ts cs) -> kept h c t.

Lemma store_commit_kept p t tf units h c : never_releases p h -> store_commit p t = Some (tf, units) -> kept h c t -> kept h c tf.
Proof.
  intros NR E [Hle Hv].
  assert (F : frozen h c tf) by (eapply store_commit_frozen; eauto; split; auto).
  destruct F as [Hle' _]. split; [exact Hle'|].
  rewrite (store_commit_keeps_other_versions p t tf units h E); [exact Hv|lia|apply NR].
Qed.
Lemma commit_trees_kept p h : never_releases p h -> forall ts cs ts' infos bl cr, commit_trees p ts None = Some (ts', infos, bl, cr) ->
  all_kept h cs ts -> all_kept h cs ts'.
Proof.
  intros NR. induction ts as [|[n t] r IH]; intros cs ts' infos bl cr E [Hn Hf].
  - cbn in E. injection E as <- _ _ _. split; auto.
  - cbn [commit_trees] in E. destruct (store_commit p t) as [[tf units]|] eqn:Es; [|discriminate].
    destruct (commit_trees p r None) as [[[[r' infos'] bl'] cr']|] eqn:Er; [|discriminate]. injection E as <- _ _ _.
    destruct cs as [|[n' c] cs]; [discriminate|]. cbn [map fst] in Hn. injection Hn as -> Hn.
    assert (Hr : all_kept h cs r) by (split; auto; intros m u d I; apply (Hf m u d); right; exact I).
    destruct (IH cs r' infos' bl' cr' eq_refl Hr) as [Hn' Hf'].
    split; [cbn [map fst]; congruence|].
    intros m u d [I|I].
    + inversion I; subst. eapply store_commit_kept; eauto. eapply Hf. left. reflexivity.
    + apply (Hf' m u d I).
Qed.
Lemma upd_tree_kept h cs : forall ts name f, all_kept h cs ts -> all_kept h cs (upd_tree ts name f).
Proof.
  intros ts. revert cs. induction ts as [|[n t] r IH]; intros cs name f [Hn Hf]; [split; auto|].
  destruct cs as [|[n' c] cs]; [discriminate|]. cbn [map fst] in Hn. injection Hn as -> Hn.
  cbn [upd_tree]. destruct (beqb n' name).
  - split; [cbn [map fst]; congruence|]. intros m u d [I|I].
    + inversion I; subst. destruct (Hf _ t _ (or_introl eq_refl)) as [A B]. split; auto.
    + apply (Hf m u d). right. exact I.
  - assert (Hr : all_kept h cs r) by (split; auto; intros m u d I; apply (Hf m u d); right; exact I).
    destruct (IH cs name f Hr) as [Hn' Hf']. split; [cbn [map fst]; congruence|].
    intros m u d [I|I]; [inversion I; subst; eapply Hf; left; reflexivity|apply (Hf' m u d I)].
Qed.
Lemma policies_ok_head h p ops : policies_ok h p ops -> never_releases p h.
Proof. induction ops as [|o r IH]; cbn [policies_ok]; [auto|]. destruct o; try exact IH. intros [A _]. exact A. Qed.
Theorem mrun_kept h cs ops : forall ms ms', policies_ok h (ms_prune ms) ops -> mrun ops ms = Some ms' ->
  all_kept h cs (ms_trees ms) -> all_kept h cs (ms_trees ms').
Proof.
  induction ops as [|o r IH]; intros ms ms' PO E K; [injection E as <-; exact K|].
  cbn [mrun] in E. destruct (mstep ms o) as [ms1|] eqn:E1; [|discriminate].
  destruct o as [n k v|n k|n k v|p| ]; cbn [mstep] in E1; cbn [policies_ok] in PO.
  - injection E1 as <-. apply (IH (ms_set ms n k v) ms' PO E). apply upd_tree_kept. exact K.
  - injection E1 as <-. apply (IH (ms_delete ms n k) ms' PO E). apply upd_tree_kept. exact K.
  - injection E1 as <-. apply (IH (ms_tset ms n k v) ms' PO E). exact K.
  - injection E1 as <-. destruct PO as [_ PO]. apply (IH (ms_set_pruning ms p) ms' PO E). exact K.
  - unfold commit in E1. destruct (commit_trees (ms_prune ms) (ms_trees ms) None) as [[[[ts infos] bl] cr]|] eqn:Ec; [|discriminate].
    assert (NR : never_releases (ms_prune ms) h) by (eapply policies_ok_head; eauto).
    assert (G : all_kept h cs ts) by (eapply commit_trees_kept; eauto).
    assert (PO1 : policies_ok h (ms_prune ms1) r /\ ms_trees ms1 = ts).
    { destruct (cr || negb match bl with Some O => false | _ => true end); injection E1 as <-; cbn [ms_prune ms_trees]; auto. }
    destruct PO1 as [PO1 Et]. apply (IH _ _ PO1 E). rewrite Et. exact G.
Qed.
(* hence: a query at a retained height answers with exactly the committed value, after any history *)
Theorem retained_version_stays_readable h cs ops ms ms' name key c : h <> 0 ->
  policies_ok h (ms_prune ms) ops -> all_kept h cs (ms_trees ms) -> mrun ops ms = Some ms' ->
  find (fun p => beqb (fst p) name) cs = Some (name, c) -> ms_query ms' name key h = QValue (aget c key).
Proof.
  intros Hh PO K E Fc. pose proof (mrun_kept h cs ops ms ms' PO E K) as [Hn Hf].
  assert (G : forall ts cs0, map fst ts = map fst cs0 -> (forall n t c0, In ((n, t), (n, c0)) (combine ts cs0) -> kept h c0 t) ->
              find (fun p => beqb (fst p) name) cs0 = Some (name, c) ->
              exists t, find (fun p => beqb (fst p) name) ts = Some (name, t) /\ kept h c t).
  { induction ts as [|[n u] r IH]; intros [|[n' d] cs0] Hm Hk Hc; try discriminate.
    cbn [map fst] in Hm. injection Hm as -> Hm. cbn [find fst] in Hc |- *. destruct (beqb n' name) eqn:B.
    - injection Hc as <- <-. exists u. split; auto. apply (Hk n' u d). left. reflexivity.
    - apply IH with (cs0 := cs0); auto. intros m w e I. apply (Hk m w e). right. exact I. }
  destruct (G _ _ Hn Hf Fc) as (t & Ft & [_ Hv]). eapply query_reads_committed; eauto.
Qed.
(* e.g. the policy that keeps everything (keep_every = 1) never releases anything *)
Lemma keep_every_1_never_releases kr h : never_releases {| keep_recent := kr; keep_every := 1 |} h.
Proof.
  intros v. unfold to_release. cbn [keep_recent keep_every]. destruct (kr <? v - 1); [|discriminate].
  cbn [Z.eqb orb]. rewrite Z.rem_1_r. cbn. discriminate.
Qed.
