(* C13 for the WHOLE multistore, any number of substores: if at least one recent version is kept, then after a
   crash at ANY point of rootmulti.Commit (any number of write units of any substore reached the disk, the root's
   own flush did not) reopening the store gives exactly what reopening it before the commit would have given:
   every substore at the old version with its old content. *)
From Coq Require Import List ZArith NArith Bool Lia.
From PM Require Import Base.Bytes Store.KV Store.RootMulti Store.RootMultiProofs.
Import ListNotations.
Local Open Scope Z_scope.

(* what a commit (complete or cut short) may leave of one substore *)
Definition tree_after (p : prune) (t u : tree) : Prop :=
  u = t \/ exists tf units, store_commit p t = Some (tf, units) /\ In u units.
Lemma store_commit_final_in_units p t tf units : store_commit p t = Some (tf, units) -> In tf units.
Proof.
  unfold store_commit. destruct (save_version t) as [t1|]; [|discriminate].
  destruct (to_release p (t_ver t1)) as [r|]; [|intros [= <- <-]; left; auto].
  destruct (delete_version t1 r) as [t2| |]; try discriminate; intros [= <- <-]; simpl; auto.
Qed.
Lemma commit_trees_shape p ts : forall budget ts' infos bl crashed,
  commit_trees p ts budget = Some (ts', infos, bl, crashed) ->
  Forall2 (fun a b => fst a = fst b /\ tree_after p (snd a) (snd b)) ts ts'.
Proof.
  induction ts as [|[name t] r IH]; simpl; intros budget ts' infos bl crashed.
  - intros [= <- _ _ _]. constructor.
  - destruct (store_commit p t) as [[tfinal units]|] eqn:Ec; [|discriminate].
    pose proof (store_commit_final_in_units _ _ _ _ Ec) as Hf.
    assert (Refl : forall l : list (bytes * tree), Forall2 (fun a b => fst a = fst b /\ tree_after p (snd a) (snd b)) l l).
    { induction l as [|x l IHl]; constructor; auto. split; auto. left; auto. }
    destruct budget as [b|].
    + destruct (Nat.ltb b (length units)) eqn:Lb.
      * intros [= <- _ _ _]. constructor; [|apply Refl]. split; auto. cbn [snd].
        destruct b as [|b']; [left; auto|]. right. exists tfinal, units. split; auto.
        apply Nat.ltb_lt in Lb. apply nth_In. lia.
      * destruct (commit_trees p r (Some (b - length units)%nat)) as [[[[r' infos'] bl'] crashed']|] eqn:Er; [|discriminate].
        intros [= <- _ _ _]. constructor; [|eapply IH; eauto]. split; auto. right. exists tfinal, units. auto.
    + destruct (commit_trees p r None) as [[[[r' infos'] bl'] crashed']|] eqn:Er; [|discriminate].
      intros [= <- _ _ _]. constructor; [|eapply IH; eauto]. split; auto. right. exists tfinal, units. auto.
Qed.

(* the store as the root's commit info describes it *)
Definition target_of (ci : cinfo) (name : bytes) : Z :=
  match find (fun p => beqb (fst p) name) ci with Some p => fst (snd p) | None => 0 end.
Definition consistent (ms : mstore) (ci : cinfo) (olds : list kv) : Prop :=
  ms_latest ms <> 0 /\ vget (ms_infos ms) (ms_latest ms) = Some ci /\
  Forall2 (fun nt old => t_ver (snd nt) = target_of ci (fst nt) /\ t_ver (snd nt) <> 0 /\ tree_ok (snd nt) old) (ms_trees ms) olds.

Lemma load_trees_after p ci : 1 <= keep_recent p -> forall ts olds ts',
  Forall2 (fun nt old => t_ver (snd nt) = target_of ci (fst nt) /\ t_ver (snd nt) <> 0 /\ tree_ok (snd nt) old) ts olds ->
  Forall2 (fun a b => fst a = fst b /\ tree_after p (snd a) (snd b)) ts ts' ->
  exists loaded, load_trees ts' (Some ci) = Some loaded /\
    Forall2 (fun l no => fst l = fst (fst no) /\ t_work (snd l) = snd no /\ t_ver (snd l) = t_ver (snd (fst no))) loaded (combine ts olds).
Proof.
  intros Hk. induction ts as [|[name t] r IH]; intros olds ts' Ho Ha.
  - inversion Ha; subst. inversion Ho; subst. exists []. split; [reflexivity|constructor].
  - inversion Ho as [|? old ? olds' (Hv & Hn & Hok) Ho']; subst. inversion Ha as [|? [name' u] ? r' (En & Hu) Ha']; subst.
    cbn [fst snd] in *. subst name'. destruct (IH _ _ Ho' Ha') as (lr & Elr & Flr).
    assert (Lu : load_version (t_disk u) (t_ver t) = Some {| t_disk := t_disk u; t_work := old; t_ver := t_ver t |}).
    { destruct Hu as [->|(tf & units & Ec & Hin)].
      - unfold load_version. destruct (Z.eqb_spec (t_ver t) 0); [contradiction|]. rewrite Hok. reflexivity.
      - pose proof (store_commit_crash_safe p t old tf units Hk Hok Ec u (or_intror Hin)) as L.
        destruct (Z.eqb_spec (t_ver t) 0); [contradiction|]. exact L. }
    simpl load_trees. fold (target_of ci name). rewrite <- Hv, Lu, Elr.
    eexists. split; [reflexivity|]. constructor; auto.
Qed.

Theorem multistore_crash_safe ms ci olds budget ms' : 1 <= keep_recent (ms_prune ms) -> consistent ms ci olds ->
  commit ms budget = Some (ms', true) ->
  exists ms2, reopen ms' = Some ms2 /\ ms_latest ms2 = ms_latest ms /\ fst (ms_last ms2) = ms_latest ms /\
    Forall2 (fun l no => fst l = fst (fst no) /\ t_work (snd l) = snd no /\ t_ver (snd l) = t_ver (snd (fst no)))
            (ms_trees ms2) (combine (ms_trees ms) olds).
Proof.
  intros Hk (Hl & Hci & Ho). unfold commit.
  destruct (commit_trees (ms_prune ms) (ms_trees ms) budget) as [[[[ts infos] bl] crashed]|] eqn:Ec; [|discriminate].
  pose proof (commit_trees_shape _ _ _ _ _ _ _ Ec) as Sh.
  destruct (crashed || negb (match bl with Some O => false | _ => true end)); [|discriminate].
  intros [= <-]. unfold reopen, load_ms. cbn [ms_latest ms_infos ms_trees ms_prune ms_transient].
  destruct (Z.eqb_spec (ms_latest ms) 0); [contradiction|]. rewrite Hci.
  destruct (load_trees_after (ms_prune ms) ci Hk _ _ _ Ho Sh) as (loaded & El & Fl). rewrite El.
  eexists. split; [reflexivity|]. cbn [ms_latest ms_last ms_trees fst]. auto.
Qed.

(* non-vacuity: a two-substore multistore after one commit is consistent; a commit cut after 0, 1 or 2 of its write units (the root flush never happens) reopens old *)
Definition ex_p : prune := {| keep_recent := 1; keep_every := 0 |}.
Definition ex_ms1 : mstore :=
  match commit (ms_set (ms_set (ms_init [[1]%N; [2]%N] ex_p) [1]%N [10]%N [11]%N) [2]%N [20]%N [21]%N) None with
  | Some (m, _) => ms_set m [1]%N [10]%N [12]%N
  | None => ms_init [] ex_p
  end.
Example ex_ms1_consistent : consistent ex_ms1 [([1]%N, (1, [([10]%N, [11]%N)])); ([2]%N, (1, [([20]%N, [21]%N)]))]
                                        [[([10]%N, [11]%N)]; [([20]%N, [21]%N)]].
Proof.
  split; [intros E; vm_compute in E; discriminate E|]. split; [vm_compute; reflexivity|].
  assert (T : ms_trees ex_ms1 = [([1]%N, {| t_disk := [(1, [([10]%N, [11]%N)])]; t_work := [([10]%N, [12]%N)]; t_ver := 1 |});
                                 ([2]%N, {| t_disk := [(1, [([20]%N, [21]%N)])]; t_work := [([20]%N, [21]%N)]; t_ver := 1 |})])
    by (vm_compute; reflexivity).
  rewrite T. constructor; [|constructor; [|constructor]].
  - split; [reflexivity|]. split; [intros E; discriminate E|reflexivity].
  - split; [reflexivity|]. split; [intros E; discriminate E|reflexivity].
Qed.
Example ex_crash_points : forall b, In b [0; 1; 2]%nat ->
  match commit ex_ms1 (Some b) with
  | Some (m', true) => option_map (fun m => map (fun nt => (fst nt, t_work (snd nt), t_ver (snd nt))) (ms_trees m)) (reopen m')
                       = Some [([1]%N, [([10]%N, [11]%N)], 1); ([2]%N, [([20]%N, [21]%N)], 1)]
  | _ => False
  end.
Proof. intros b [<-|[<-|[<-|[]]]]; vm_compute; reflexivity. Qed.

(* ================= C12 for the whole multistore: a completed commit is durable ================= *)
(* reopening after a commit that ran to the end gives every substore at the new version with exactly the content
   its working tree had, and the commit id (hash) reported by Commit is the one the reopened store reports *)
Lemma commit_trees_all p ts : forall ts' infos bl crashed, commit_trees p ts None = Some (ts', infos, bl, crashed) ->
  crashed = false /\ bl = None /\
  Forall2 (fun a b => fst a = fst b /\ exists units, store_commit p (snd a) = Some (snd b, units)) ts ts' /\
  infos = map (fun b => (fst b, (t_ver (snd b), t_work (snd b)))) ts'.
Proof.
  induction ts as [|[name t] r IH]; simpl; intros ts' infos bl crashed.
  - intros [= <- <- <- <-]. repeat split; constructor.
  - destruct (store_commit p t) as [[tfinal units]|] eqn:Ec; [|discriminate].
    destruct (commit_trees p r None) as [[[[r' infos'] bl'] crashed']|] eqn:Er; [|discriminate].
    destruct (IH _ _ _ _ eq_refl) as (-> & -> & F & ->). intros [= <- <- <- <-]. repeat split; auto.
    constructor; auto. split; auto. exists units; auto.
Qed.
Lemma find_info_app (pre post : cinfo) name x : ~ In name (map fst pre) ->
  find (fun p => beqb (fst p) name) (pre ++ (name, x) :: post) = Some (name, x).
Proof.
  induction pre as [|[n y] pre IH]; simpl; intros N.
  - rewrite (proj2 (beqb_eq name name) eq_refl). reflexivity.
  - destruct (beqb n name) eqn:B; [apply beqb_eq in B; subst; exfalso; apply N; left; auto|]. apply IH. tauto.
Qed.
Theorem multistore_commit_durable ms ms' : 0 <= keep_recent (ms_prune ms) -> 0 <= fst (ms_last ms) ->
  NoDup (map fst (ms_trees ms)) ->
  (forall n t, In (n, t) (ms_trees ms) -> 0 <= t_ver t /\ vget (t_disk t) (t_ver t + 1) = None) ->
  commit ms None = Some (ms', false) ->
  exists ms2, reopen ms' = Some ms2 /\ ms_last ms2 = ms_last ms' /\ ms_latest ms2 = fst (ms_last ms) + 1 /\
    Forall2 (fun l nt => fst l = fst nt /\ t_work (snd l) = t_work (snd nt) /\ t_ver (snd l) = t_ver (snd nt) + 1)
            (ms_trees ms2) (ms_trees ms).
Proof.
  intros Hk Hv ND Fresh. unfold commit.
  destruct (commit_trees (ms_prune ms) (ms_trees ms) None) as [[[[ts infos] bl] crashed]|] eqn:Ec; [|discriminate].
  destruct (commit_trees_all _ _ _ _ _ _ Ec) as (-> & -> & F & Ei). cbn [orb negb].
  intros [= <-]. unfold reopen, load_ms. cbn [ms_latest ms_infos ms_trees ms_prune ms_transient ms_last].
  destruct (Z.eqb_spec (fst (ms_last ms) + 1) 0); [lia|]. rewrite vget_vset_same. cbv beta iota.
  (* every substore loads its new version *)
  assert (L : forall pre (tsa : list (bytes * tree)) tsb,
             Forall2 (fun a b => fst a = fst b /\ exists units, store_commit (ms_prune ms) (snd a) = Some (snd b, units)) tsa tsb ->
             (forall n t, In (n, t) tsa -> 0 <= t_ver t /\ vget (t_disk t) (t_ver t + 1) = None) ->
             NoDup (map fst pre ++ map fst tsa) ->
             exists loaded, load_trees tsb (Some (pre ++ map (fun b => (fst b, (t_ver (snd b), t_work (snd b)))) tsb)) = Some loaded /\
               Forall2 (fun l nt => fst l = fst nt /\ t_work (snd l) = t_work (snd nt) /\ t_ver (snd l) = t_ver (snd nt) + 1) loaded tsa).
  { intros pre tsa. revert pre. induction tsa as [|[na ta] ra IH]; intros pre tsb Fa Fr NDa.
    - inversion Fa; subst. exists []. split; [reflexivity|constructor].
    - inversion Fa as [|? [nb tb] ? rb (En & units & Ecm) Fa']; subst. cbn [fst snd] in *. subst nb.
      destruct (Fr na ta (or_introl eq_refl)) as [Hv0 Hf].
      destruct (store_commit_new_version _ _ _ _ Hk Hf Ecm) as (V & W & G).
      cbn [map load_trees]. cbn [fst snd].
      rewrite find_info_app by (intros Hin; apply NoDup_remove_2 in NDa; apply NDa; apply in_or_app; left; exact Hin).
      cbn [fst snd]. unfold load_version. rewrite V. destruct (Z.eqb_spec (t_ver ta + 1) 0); [lia|]. rewrite G.
      specialize (IH (pre ++ [(na, (t_ver tb, t_work tb))]) rb Fa' (fun n t H => Fr n t (or_intror H))).
      rewrite <- app_assoc in IH. cbn [app] in IH.
      destruct IH as (lr & Elr & Flr).
      { rewrite map_app. cbn [map fst]. rewrite <- app_assoc. cbn [app]. exact NDa. }
      rewrite V in Elr. rewrite Elr. eexists. split; [reflexivity|]. constructor; auto. }
  destruct (L [] (ms_trees ms) ts F Fresh ND) as (loaded & El & Fl). cbn [app] in El. subst infos.
  match goal with |- context[match ?X with Some _ => _ | None => None end] => replace X with (Some loaded) by (symmetry; exact El) end.
  eexists. split; [reflexivity|]. cbn [ms_last ms_latest ms_trees]. auto.
Qed.
