(* C19 model: N-of-N positional multisignature keys (crypto/multisig.go VerifyBytes) and the
   keybase state machine (crypto/keys/keybase.go), over IDEAL primitives: a signature is a
   record of which key signed which message; an armored private key is a record of the key
   and the passphrase it was encrypted under (AEAD authenticity: it opens under that
   passphrase and no other). Model only. *)
From Coq Require Import List NArith Bool.
From PM Require Import Base.Bytes Store.KV.
Import ListNotations.
Local Open Scope N_scope.

Inductive pkey := PK (id : N) | PMulti (ks : list pkey).
Inductive sg := SPlain (by_key msg : N) | SMulti (sigs : list sg) | SGarbage.

(* PublicKeyMultiSignature.VerifyBytes: as many signatures as keys, the i-th verifies under the i-th key *)
Fixpoint verify (k : pkey) (m : N) (s : sg) : bool :=
  match k, s with
  | PK id, SPlain b o => (b =? id) && (o =? m)
  | PMulti ks, SMulti sigs =>
    (fix go (ks : list pkey) (sigs : list sg) : bool :=
       match ks, sigs with
       | [], [] => true
       | k1 :: kr, s1 :: sr => verify k1 m s1 && go kr sr
       | _, _ => false
       end) ks sigs
  | _, _ => false
  end.

(* ---- keybase ---- *)
Definition armor := (N * bytes)%type.                     (* key id, passphrase it is sealed under *)
Definition unarmor (a : armor) (pass : bytes) : option N := if beqb (snd a) pass then Some (fst a) else None.
Definition addr_of (id : N) : bytes := [id].              (* injective stand-in for the address hash *)
Definition kb := amap armor.                              (* address -> armored private key *)

Inductive kres := KOk | KErr | KSig (s : sg) | KArmor (a : armor).
Inductive kop :=
| KCreate (newid : N) (pass : bytes)
| KImport (a : armor) (decrypt pass : bytes)
| KUpdate (addr oldp newp : bytes)
| KDelete (addr pass : bytes)
| KSign (addr pass : bytes) (msg : N)
| KExport (addr decrypt encrypt : bytes).

Definition kstep (s : kb) (o : kop) : kb * kres :=
  match o with
  | KCreate id pass => (aset s (addr_of id) (id, pass), KOk)
  | KImport a dp np =>
    match unarmor a dp with
    | None => (s, KErr)
    | Some id => match aget s (addr_of id) with
                 | Some _ => (s, KErr)                       (* cannot overwrite *)
                 | None => (aset s (addr_of id) (id, np), KOk)
                 end
    end
  | KUpdate ad op np =>
    match aget s ad with
    | None => (s, KErr)
    | Some a => match unarmor a op with
                | None => (s, KErr)
                | Some id => (aset s (addr_of id) (id, np), KOk)
                end
    end
  | KDelete ad p =>
    match aget s ad with
    | None => (s, KErr)
    | Some a => match unarmor a p with None => (s, KErr) | Some _ => (adel s ad, KOk) end
    end
  | KSign ad p m =>
    match aget s ad with
    | None => (s, KErr)
    | Some a => match unarmor a p with None => (s, KErr) | Some id => (s, KSig (SPlain id m)) end
    end
  | KExport ad dp ep =>
    match aget s ad with
    | None => (s, KErr)
    | Some a => match unarmor a dp with None => (s, KErr) | Some id => (s, KArmor (id, ep)) end
    end
  end.
