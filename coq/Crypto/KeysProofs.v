From Coq Require Import List NArith Bool Lia.
From PM Require Import Base.Bytes Store.KV Store.MergeProofs Store.KVProofs Crypto.KeysModel.
Import ListNotations.
Local Open Scope N_scope.

(* C19: a multisignature verifies iff there are exactly as many signatures as keys and each
   verifies under the key in ITS position (recursively for nested keys) *)
Theorem verify_multi_iff ks m sigs :
  verify (PMulti ks) m (SMulti sigs) = true <-> Forall2 (fun k s => verify k m s = true) ks sigs.
Proof.
  simpl. revert sigs. induction ks as [|k kr IH]; intros [|s sr]; split; intros H; try discriminate; try constructor.
  - inversion H.
  - inversion H.
  - apply andb_true_iff in H. apply H.
  - apply andb_true_iff in H. apply IH. apply H.
  - inversion H; subst. apply andb_true_iff. split; auto. apply IH; auto.
Qed.
Theorem verify_multi_length ks m sigs : verify (PMulti ks) m (SMulti sigs) = true -> length sigs = length ks.
Proof. intros H. apply verify_multi_iff in H. induction H; simpl; auto. Qed.
(* a plain signature binds key and message *)
Theorem verify_plain_iff id m b o : verify (PK id) m (SPlain b o) = true <-> b = id /\ o = m.
Proof. simpl. rewrite andb_true_iff, !N.eqb_eq. tauto. Qed.
Theorem verify_wrong_shape : forall id m sigs ks b o,
  verify (PK id) m (SMulti sigs) = false /\ verify (PMulti ks) m (SPlain b o) = false /\ verify (PK id) m SGarbage = false.
Proof. intros. repeat split; reflexivity. Qed.

(* ---- keybase ---- *)
Lemma unarmor_right a : unarmor a (snd a) = Some (fst a).
Proof. unfold unarmor. rewrite beqb_refl'. reflexivity. Qed.
Lemma unarmor_wrong a p : p <> snd a -> unarmor a p = None.
Proof. unfold unarmor. intros H. destruct (beqb (snd a) p) eqn:E; auto. apply beqb_eq in E. congruence. Qed.

(* a wrong passphrase never yields a key and never deletes or alters one *)
Theorem wrong_pass_changes_nothing (s : kb) ad (a : armor) p : aget s ad = Some a -> p <> snd a ->
  (forall np, kstep s (KUpdate ad p np) = (s, KErr)) /\ kstep s (KDelete ad p) = (s, KErr) /\
  (forall m, kstep s (KSign ad p m) = (s, KErr)) /\ (forall ep, kstep s (KExport ad p ep) = (s, KErr)).
Proof.
  intros E W. pose proof (unarmor_wrong a p W) as U. repeat split; intros; simpl; rewrite E, U; reflexivity.
Qed.
Theorem import_wrong_pass_changes_nothing (s : kb) (a : armor) dp np : dp <> snd a -> kstep s (KImport a dp np) = (s, KErr).
Proof. intros W. simpl. rewrite (unarmor_wrong a dp W). reflexivity. Qed.
(* export then import into a keybase that does not hold the key: the same key and address, sealed under the new passphrase *)
Theorem export_import_roundtrip (s1 s2 : kb) ad dp ep np (a : armor) :
  kstep s1 (KExport ad dp ep) = (s1, KArmor a) -> aget s2 (addr_of (fst a)) = None ->
  kstep s2 (KImport a ep np) = (aset s2 (addr_of (fst a)) (fst a, np), KOk) /\
  (exists a0, aget s1 ad = Some a0 /\ fst a0 = fst a).
Proof.
  simpl. destruct (aget s1 ad) as [a0|] eqn:E; [|discriminate].
  destruct (unarmor a0 dp) as [id|] eqn:U; [|discriminate]. intros [= <-] Hn. simpl in *.
  unfold unarmor at 1. simpl. rewrite beqb_refl'. simpl. rewrite Hn. split; auto.
  exists a0. split; auto. unfold unarmor in U. destruct (beqb (snd a0) dp); [|discriminate]. injection U as <-. reflexivity.
Qed.
(* a created key can be used with its passphrase *)
Theorem create_then_sign (s : kb) id p m : asorted s ->
  let s1 := fst (kstep s (KCreate id p)) in kstep s1 (KSign (addr_of id) p m) = (s1, KSig (SPlain id m)).
Proof.
  intros S. simpl. rewrite aget_aset by auto. rewrite beqb_refl'. unfold unarmor. simpl. rewrite beqb_refl'. reflexivity.
Qed.
