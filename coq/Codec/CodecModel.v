(* L0 model of the byte-level contracts behind C20: amino's uvarint length prefix
   (go-amino EncodeUvarint / DecodeUvarint = encoding/binary), the sortable time text used as the
   unstaking-queue key (types/utils.go FormatTimeBytes, SortableTimeFormat), and the canonical
   JSON of the sign bytes (types/utils.go SortJSON + encoding/json's string escaping; objects are
   decoded into maps - the LAST binding of a key wins - and re-encoded with sorted keys).
   Strings are byte lists; the JSON escape is exact for bytes below 0x80; bytes from 0x80 up are
   passed through (true of Go for valid UTF-8 other than U+2028/U+2029; invalid UTF-8 is where
   finding F21 lives).  Model only, no proofs. *)
From Coq Require Import List ZArith NArith Bool.
From PM Require Import Base.Bytes Store.KV.
Import ListNotations.
Local Open Scope Z_scope.

(* ---------- uvarint (little-endian base 128, at most 10 bytes for a uint64) ---------- *)
Fixpoint uvarint_enc (fuel : nat) (z : Z) : bytes :=
  match fuel with
  | O => []
  | S f => if z <? 128 then [Z.to_N z] else Z.to_N (z mod 128 + 128) :: uvarint_enc f (z / 128)
  end.
Definition uvarint (z : Z) : bytes := uvarint_enc 10 z.

(* binary.Uvarint: [i] is the index of the byte, [sh] = 7*i; the tenth byte may only be 0 or 1 *)
Fixpoint uvarint_dec (fuel : nat) (b : bytes) (i sh acc : Z) : option (Z * bytes) :=
  match fuel, b with
  | O, _ => None                                   (* more than 10 bytes: overflow *)
  | _, [] => None                                  (* buffer too small *)
  | S f, x :: r =>
    if (x <? 128)%N then
      if (i =? 9) && (1 <? x)%N then None else Some (acc + Z.of_N x * 2 ^ sh, r)
    else uvarint_dec f r (i + 1) (sh + 7) (acc + (Z.of_N x - 128) * 2 ^ sh)
  end.
Definition uvarint_decode (b : bytes) : option (Z * bytes) := uvarint_dec 10 b 0 0 0.

(* MarshalBinaryLengthPrefixed = uvarint(len bare) ++ bare *)
Definition frame (bare : bytes) : bytes := uvarint (Z.of_nat (length bare)) ++ bare.
Definition unframe (b : bytes) : option (bytes * bytes) :=
  match uvarint_decode b with
  | Some (n, r) => if Z.of_nat (length r) <? n then None else Some (firstn (Z.to_nat n) r, skipn (Z.to_nat n) r)
  | None => None
  end.

(* ---------- sortable time text "2006-01-02T15:04:05.000000000" ---------- *)
Fixpoint digits (w : nat) (z : Z) : bytes :=        (* w decimal digits of z mod 10^w, ASCII *)
  match w with
  | O => []
  | S w' => digits w' (z / 10) ++ [Z.to_N (48 + z mod 10)]
  end.
Record tfields := { t_year : Z; t_month : Z; t_day : Z; t_hour : Z; t_min : Z; t_sec : Z; t_nano : Z }.
Definition time_text (t : tfields) : bytes :=
  digits 4 (t_year t) ++ [45%N] ++ digits 2 (t_month t) ++ [45%N] ++ digits 2 (t_day t) ++ [84%N] ++
  digits 2 (t_hour t) ++ [58%N] ++ digits 2 (t_min t) ++ [58%N] ++ digits 2 (t_sec t) ++ [46%N] ++ digits 9 (t_nano t).
Definition tfields_ok (t : tfields) : Prop :=
  0 <= t_year t < 10000 /\ 0 <= t_month t < 100 /\ 0 <= t_day t < 100 /\ 0 <= t_hour t < 100 /\
  0 <= t_min t < 100 /\ 0 <= t_sec t < 100 /\ 0 <= t_nano t < 1000000000.
Definition lex (c d : comparison) : comparison := match c with Eq => d | _ => c end.
Definition tfields_compare (a b : tfields) : comparison :=
  lex (t_year a ?= t_year b) (lex (t_month a ?= t_month b) (lex (t_day a ?= t_day b) (lex (t_hour a ?= t_hour b)
  (lex (t_min a ?= t_min b) (lex (t_sec a ?= t_sec b) (t_nano a ?= t_nano b)))))).

(* ---------- canonical JSON ---------- *)
Inductive json :=
| JNull
| JBool (b : bool)
| JStr (s : bytes)
| JArr (l : list json)
| JObj (l : list (bytes * json)).

(* decode into map[string]interface{} (last binding wins) and re-encode with sorted keys *)
Fixpoint canon (j : json) : json :=
  match j with
  | JArr l => JArr (map canon l)
  | JObj l => JObj ((fix go (l : list (bytes * json)) (acc : amap json) : amap json :=
                       match l with
                       | [] => acc
                       | (k, v) :: r => go r (aset acc k (canon v))
                       end) l [])
  | _ => j
  end.

Definition hexd (z : Z) : N := Z.to_N (if z <? 10 then 48 + z else 87 + z).      (* lower-case hex digit *)
(* encoding/json string escape (escapeHTML on, as json.Marshal does) *)
Definition esc (b : N) : bytes :=
  (if b =? 34 then [92; 34]
   else if b =? 92 then [92; 92]
   else if b =? 10 then [92; 110]
   else if b =? 13 then [92; 114]
   else if b =? 9 then [92; 116]
   else if b =? 8 then [92; 98]            (* \b and \f: encoding/json since Go 1.22; the check runs the pinned toolchain *)
   else if b =? 12 then [92; 102]
   else if (b <? 32) || (b =? 60) || (b =? 62) || (b =? 38)
        then [92; 117; 48; 48; hexd (Z.of_N b / 16); hexd (Z.of_N b mod 16)]
   else [b])%N.
Definition quote (s : bytes) : bytes := 34%N :: flat_map esc s ++ [34%N].

Fixpoint render (j : json) : bytes :=
  match j with
  | JNull => [110; 117; 108; 108]%N
  | JBool true => [116; 114; 117; 101]%N
  | JBool false => [102; 97; 108; 115; 101]%N
  | JStr s => quote s
  | JArr l => 91%N :: (fix elems (l : list json) : bytes :=
                         match l with
                         | [] => [93%N]
                         | x :: r => render x ++ match r with [] => [93%N] | _ :: _ => 44%N :: elems r end
                         end) l
  | JObj l => 123%N :: (fix fields (l : list (bytes * json)) : bytes :=
                          match l with
                          | [] => [125%N]
                          | (k, v) :: r => quote k ++ 58%N :: render v ++ match r with [] => [125%N] | _ :: _ => 44%N :: fields r end
                          end) l
  end.

Definition sort_json (j : json) : bytes := render (canon j).

(* the StdSignDoc of x/auth/types/stdtx.go: five fields, then SortJSON *)
Definition sign_doc (chain entropy memo : bytes) (fee msg : json) : json :=
  JObj [([99; 104; 97; 105; 110; 95; 105; 100]%N, JStr chain);           (* chain_id *)
        ([101; 110; 116; 114; 111; 112; 121]%N, JStr entropy);            (* entropy  *)
        ([102; 101; 101]%N, fee);                                          (* fee      *)
        ([109; 101; 109; 111]%N, JStr memo);                               (* memo     *)
        ([109; 115; 103]%N, msg)].                                         (* msg      *)
Definition sign_bytes (chain entropy memo : bytes) (fee msg : json) : bytes :=
  sort_json (sign_doc chain entropy memo fee msg).

(* strings the model is exact on *)
Fixpoint json_wf (j : json) : Prop :=
  match j with
  | JStr s => wf_bytes s
  | JArr l => (fix all (l : list json) : Prop := match l with [] => True | x :: r => json_wf x /\ all r end) l
  | JObj l => (fix all (l : list (bytes * json)) : Prop :=
                 match l with [] => True | (k, v) :: r => wf_bytes k /\ json_wf v /\ all r end) l
  | _ => True
  end.
