(* Proofs about the byte-level codec model: uvarint / length-prefix round trip, order
   preservation and injectivity of the sortable time text, canonical JSON (sign bytes). *)
From Coq Require Import List ZArith NArith Bool Lia Permutation.
From PM Require Import Base.Bytes Store.KV Store.KVProofs App.Model App.KeyProofs Codec.CodecModel.
Import ListNotations.
Local Open Scope Z_scope.

(* ================= uvarint ================= *)
Lemma uvarint_dec_enc fuel : forall z i sh acc rest,
  0 <= z -> 0 <= i <= 9 -> sh = 7 * i -> Z.of_nat fuel = 10 - i -> z * 2 ^ sh < 2 ^ 64 ->
  uvarint_dec fuel (uvarint_enc fuel z ++ rest) i sh acc = Some (acc + z * 2 ^ sh, rest).
Proof.
  induction fuel as [|f IH]; intros z i sh acc rest Hz Hi Hsh Hf Hb; [lia|].
  cbn [uvarint_enc]. destruct (Z.ltb_spec z 128) as [L|G].
  - cbn [app uvarint_dec]. assert (Hx : (Z.to_N z <? 128)%N = true) by (apply N.ltb_lt; lia). rewrite Hx.
    assert (Hc : (i =? 9) && (1 <? Z.to_N z)%N = false).
    { destruct (Z.eqb_spec i 9) as [E|]; [|reflexivity]. subst i sh. cbn [andb].
      apply N.ltb_ge. change (2 ^ 64) with (2 * 2 ^ 63) in Hb. change (7 * 9) with 63 in Hb. nia. }
    rewrite Hc. rewrite Z2N.id by lia. reflexivity.
  - assert (Hi9 : i < 9).
    { destruct (Z.eq_dec i 9) as [E|]; [|lia]. subst i sh. change (2 ^ 64) with (2 * 2 ^ 63) in Hb. change (7 * 9) with 63 in Hb. nia. }
    pose proof (Z.mod_pos_bound z 128 ltac:(lia)) as Hm. pose proof (Z.div_mod z 128 ltac:(lia)) as Hd.
    cbn [app uvarint_dec].
    assert (Hx : (Z.to_N (z mod 128 + 128) <? 128)%N = false) by (apply N.ltb_ge; lia). rewrite Hx.
    rewrite Z2N.id by lia.
    assert (Hp : 2 ^ (sh + 7) = 128 * 2 ^ sh) by (rewrite Z.pow_add_r by lia; change (2 ^ 7) with 128; lia).
    assert (Hpos : 0 < 2 ^ sh) by (apply Z.pow_pos_nonneg; lia).
    assert (0 <= z / 128) by (apply Z.div_pos; lia).
    rewrite IH; try lia; try (rewrite Hp; nia).
    f_equal. f_equal. rewrite Hp. nia.
Qed.
Theorem uvarint_roundtrip z rest : 0 <= z < 2 ^ 64 -> uvarint_decode (uvarint z ++ rest) = Some (z, rest).
Proof.
  intros H. unfold uvarint_decode, uvarint.
  rewrite (uvarint_dec_enc 10 z 0 0 0 rest); try lia; try reflexivity; change (2 ^ 0) with 1; try lia.
  f_equal. f_equal. lia.
Qed.
Theorem frame_roundtrip bare rest : Z.of_nat (length bare) < 2 ^ 64 -> unframe (frame bare ++ rest) = Some (bare, rest).
Proof.
  intros H. unfold unframe, frame. rewrite <- app_assoc, uvarint_roundtrip by lia.
  rewrite app_length. destruct (Z.ltb_spec (Z.of_nat (length bare + length rest)) (Z.of_nat (length bare))); [lia|].
  rewrite Nat2Z.id, firstn_app, Nat.sub_diag, firstn_all, skipn_app, Nat.sub_diag, skipn_all. cbn. rewrite app_nil_r. reflexivity.
Qed.

(* ================= decimal digits and the time text ================= *)
Lemma digits_length n z : length (digits n z) = n.
Proof. revert z; induction n as [|n IH]; intros z; simpl; auto. rewrite app_length, IH. simpl. lia. Qed.
Lemma digits_compare n : forall x y, 0 <= x < 10 ^ Z.of_nat n -> 0 <= y < 10 ^ Z.of_nat n ->
  bcompare (digits n x) (digits n y) = (x ?= y).
Proof.
  induction n as [|n IH]; intros x y Hx Hy.
  - simpl in *. assert (x = 0) by lia. assert (y = 0) by lia. subst. reflexivity.
  - cbn [digits]. rewrite bcompare_snoc by (rewrite !digits_length; auto).
    rewrite Nat2Z.inj_succ, Z.pow_succ_r in Hx, Hy by lia.
    assert (Hx' : 0 <= x / 10 < 10 ^ Z.of_nat n) by (split; [apply Z.div_pos; lia|apply Z.div_lt_upper_bound; lia]).
    assert (Hy' : 0 <= y / 10 < 10 ^ Z.of_nat n) by (split; [apply Z.div_pos; lia|apply Z.div_lt_upper_bound; lia]).
    rewrite IH by auto.
    pose proof (Z.div_mod x 10 ltac:(lia)). pose proof (Z.div_mod y 10 ltac:(lia)).
    pose proof (Z.mod_pos_bound x 10 ltac:(lia)). pose proof (Z.mod_pos_bound y 10 ltac:(lia)).
    destruct (Z.compare_spec (x / 10) (y / 10)) as [E|L|G].
    + rewrite (Z2N.inj_compare (48 + x mod 10) (48 + y mod 10)) by lia.
      destruct (Z.compare_spec (48 + x mod 10) (48 + y mod 10));
        symmetry; [apply Z.compare_eq_iff|apply Z.compare_lt_iff|apply Z.compare_gt_iff]; lia.
    + symmetry. apply Z.compare_lt_iff. lia.
    + symmetry. apply Z.compare_gt_iff. lia.
Qed.
Lemma bcompare_sep p q c a b : length p = length q ->
  bcompare (p ++ [c] ++ a) (q ++ [c] ++ b) = lex (bcompare p q) (bcompare a b).
Proof.
  intros L. rewrite bcompare_app_eqlen by auto. unfold lex. destruct (bcompare p q); auto.
  cbn [app bcompare]. rewrite N.compare_refl. reflexivity.
Qed.
(* the byte order of the keys is the order of the broken-down UTC times *)
Theorem time_text_order a b : tfields_ok a -> tfields_ok b ->
  bcompare (time_text a) (time_text b) = tfields_compare a b.
Proof.
  intros (Ay & Am & Ad & Ah & Ai & As & An) (By & Bm & Bd & Bh & Bi & Bs & Bn).
  unfold time_text, tfields_compare.
  repeat (rewrite bcompare_sep by (rewrite !digits_length; reflexivity)).
  rewrite !digits_compare; auto.
Qed.
Lemma lex_eq c d : lex c d = Eq -> c = Eq /\ d = Eq.
Proof. destruct c; simpl; intros; try discriminate; auto. Qed.
(* ... and a key decodes back to exactly the time it was built from *)
Theorem time_text_injective a b : tfields_ok a -> tfields_ok b -> time_text a = time_text b -> a = b.
Proof.
  intros Ha Hb E. pose proof (time_text_order a b Ha Hb) as O. rewrite E, bcompare_refl in O.
  symmetry in O. unfold tfields_compare in O.
  repeat (apply lex_eq in O; destruct O as [?%Z.compare_eq_iff O]). apply Z.compare_eq_iff in O.
  destruct a, b; simpl in *; subst; reflexivity.
Qed.

(* ================= canonical JSON ================= *)
Section JsonInd.
  Variable P : json -> Prop.
  Hypothesis Hn : P JNull.
  Hypothesis Hb : forall b, P (JBool b).
  Hypothesis Hs : forall s, P (JStr s).
  Hypothesis Ha : forall l, Forall P l -> P (JArr l).
  Hypothesis Ho : forall l, Forall (fun kv => P (snd kv)) l -> P (JObj l).
  Fixpoint json_ind' (j : json) : P j :=
    match j with
    | JNull => Hn
    | JBool b => Hb b
    | JStr s => Hs s
    | JArr l => Ha l ((fix go (l : list json) : Forall P l :=
                         match l with [] => Forall_nil _ | x :: r => Forall_cons x (json_ind' x) (go r) end) l)
    | JObj l => Ho l ((fix go (l : list (bytes * json)) : Forall (fun kv => P (snd kv)) l :=
                         match l with
                         | [] => Forall_nil _
                         | kv :: r => Forall_cons kv (json_ind' (snd kv)) (go r)
                         end) l)
    end.
End JsonInd.

(* named versions of the inner loops *)
Fixpoint cgo (l : list (bytes * json)) (acc : amap json) : amap json :=
  match l with [] => acc | (k, v) :: r => cgo r (aset acc k (canon v)) end.
Lemma canon_obj l : canon (JObj l) = JObj (cgo l []).
Proof. reflexivity. Qed.
Fixpoint relems (l : list json) : bytes :=
  match l with [] => [93%N] | x :: r => render x ++ match r with [] => [93%N] | _ :: _ => 44%N :: relems r end end.
Fixpoint rfields (l : list (bytes * json)) : bytes :=
  match l with
  | [] => [125%N]
  | (k, v) :: r => quote k ++ 58%N :: render v ++ match r with [] => [125%N] | _ :: _ => 44%N :: rfields r end
  end.
Lemma render_arr l : render (JArr l) = 91%N :: relems l.
Proof. reflexivity. Qed.
Lemma render_obj l : render (JObj l) = 123%N :: rfields l.
Proof. reflexivity. Qed.
Lemma json_wf_arr l : json_wf (JArr l) <-> Forall json_wf l.
Proof.
  cbn [json_wf]. induction l as [|x r IH]; [split; auto|]. split.
  - intros [H1 H2]. constructor; auto. apply IH; auto.
  - intros H. inversion H; subst. split; auto. apply IH; auto.
Qed.
Lemma json_wf_obj l : json_wf (JObj l) <-> Forall (fun kv => wf_bytes (fst kv) /\ json_wf (snd kv)) l.
Proof.
  cbn [json_wf]. induction l as [|[k v] r IH]; [split; auto|]. split.
  - intros (H1 & H2 & H3). constructor; auto. apply IH; auto.
  - intros H. inversion H as [|? ? [H1 H2] H3]; subst. split; auto. split; auto. apply IH; auto.
Qed.

(* ---- canonical form: only the key -> content map of an object matters ---- *)
Fixpoint clook (l : list (bytes * json)) (k : bytes) : option json :=      (* last binding wins *)
  match l with
  | [] => None
  | (k0, v) :: r => match clook r k with Some x => Some x | None => if beqb k0 k then Some (canon v) else None end
  end.
Lemma cgo_spec l : forall acc, asorted acc ->
  asorted (cgo l acc) /\ forall k, aget (cgo l acc) k = match clook l k with Some x => Some x | None => aget acc k end.
Proof.
  induction l as [|[k0 v] r IH]; intros acc S; cbn [cgo clook]; [split; auto|].
  destruct (IH (aset acc k0 (canon v)) (proj1 (aset_sorted acc k0 (canon v) S))) as [S' G]. split; auto.
  intros k. rewrite G. destruct (clook r k); auto. rewrite aget_aset by auto. destruct (beqb k0 k); auto.
Qed.
Theorem canon_obj_ext l1 l2 : (forall k, clook l1 k = clook l2 k) -> canon (JObj l1) = canon (JObj l2).
Proof.
  intros E. rewrite !canon_obj. f_equal.
  destruct (cgo_spec l1 [] I) as [S1 G1], (cgo_spec l2 [] I) as [S2 G2].
  apply amap_ext; auto. intros k. rewrite G1, G2, E. reflexivity.
Qed.
Lemma clook_none l k : clook l k = None <-> ~ In k (map fst l).
Proof.
  induction l as [|[k0 v] r IH]; cbn [clook map fst In]; [tauto|].
  destruct (clook r k) eqn:C.
  - split; [discriminate|]. intros N. exfalso. assert (Some j = None) as X by (apply IH; tauto). discriminate.
  - destruct (beqb k0 k) eqn:B.
    + apply beqb_eq in B. split; [discriminate|]. tauto.
    + split; auto. intros _ [E|H]; [subst; rewrite (proj2 (beqb_eq k k) eq_refl) in B; discriminate|].
      apply (proj1 IH); auto.
Qed.
Lemma clook_some l k : NoDup (map fst l) -> forall x, (clook l k = Some x <-> exists v, In (k, v) l /\ x = canon v).
Proof.
  induction l as [|[k0 v] r IH]; cbn [clook map fst In]; intros ND x.
  - split; [discriminate|intros (v & [] & _)].
  - inversion ND as [|? ? NI ND']; subst. specialize (IH ND'). case_eq (clook r k).
    + intros j C. split.
      * intros E. injection E as <-. destruct (proj1 (IH j) C) as (v' & Hin & E'). exists v'; auto.
      * intros (v' & [E|Hin] & ->).
        -- injection E as -> ->. exfalso. apply NI.
           destruct (proj1 (IH j) C) as (v'' & Hin & _). apply in_map_iff. exists (k, v''); auto.
        -- rewrite <- C. apply IH. exists v'; auto.
    + intros C. destruct (beqb k0 k) eqn:B.
      * apply beqb_eq in B; subst k0. split.
        -- intros E. injection E as <-. exists v; auto.
        -- intros (v' & [E|Hin] & ->); [injection E as ->; auto|].
           exfalso. apply NI. apply in_map_iff. exists (k, v'); auto.
      * split; [discriminate|]. intros (v' & [E|Hin] & ->).
        -- injection E as -> ->. rewrite (proj2 (beqb_eq k k) eq_refl) in B. discriminate.
        -- assert (clook r k = Some (canon v')) as X by (apply IH; exists v'; auto). congruence.
Qed.
(* the readable corollary: the order of an object's fields does not matter *)
Theorem canon_perm l1 l2 : NoDup (map fst l1) -> Permutation l1 l2 -> canon (JObj l1) = canon (JObj l2).
Proof.
  intros ND P. assert (ND2 : NoDup (map fst l2)) by (eapply Permutation_NoDup; [apply Permutation_map; exact P|auto]).
  apply canon_obj_ext. intros k. destruct (clook l1 k) eqn:C1.
  - symmetry. apply clook_some; auto. apply clook_some in C1; auto. destruct C1 as (v & Hin & ->).
    exists v; split; auto. eapply Permutation_in; eauto.
  - symmetry. apply clook_none. apply clook_none in C1. intros Hin. apply C1.
    eapply Permutation_in; [apply Permutation_sym, Permutation_map; exact P|auto].
Qed.

(* ---- the rendering is prefix-free, hence injective ---- *)
Fixpoint is_prefix (a b : bytes) : bool :=
  match a, b with
  | [], _ => true
  | x :: a', y :: b' => (x =? y)%N && is_prefix a' b'
  | _ :: _, [] => false
  end.
Lemma app_eq_prefix a : forall b r1 r2, a ++ r1 = b ++ r2 -> is_prefix a b = true \/ is_prefix b a = true.
Proof.
  induction a as [|x a IH]; intros [|y b] r1 r2 H; cbn; auto.
  cbn in H. injection H as -> H. rewrite N.eqb_refl. cbn. eapply IH; eauto.
Qed.
Definition all_bytes : list N := map N.of_nat (seq 0 256).
Lemma all_bytes_in b : (b < 256)%N -> In b all_bytes.
Proof. intros H. apply in_map_iff. exists (N.to_nat b). split; [apply N2Nat.id|]. apply in_seq. lia. Qed.
Definition esc_check : bool :=
  forallb (fun b1 => negb (match esc b1 with [] => true | c :: _ => (c =? 34)%N end) &&
                     forallb (fun b2 => (b1 =? b2)%N || negb (is_prefix (esc b1) (esc b2))) all_bytes) all_bytes.
Lemma esc_check_ok : esc_check = true.
Proof. vm_compute. reflexivity. Qed.
Lemma esc_prefix b1 b2 : (b1 < 256)%N -> (b2 < 256)%N -> is_prefix (esc b1) (esc b2) = true -> b1 = b2.
Proof.
  intros H1 H2 P. pose proof esc_check_ok as C. unfold esc_check in C. rewrite forallb_forall in C.
  specialize (C b1 (all_bytes_in b1 H1)). apply andb_true_iff in C. destruct C as [_ C].
  rewrite forallb_forall in C. specialize (C b2 (all_bytes_in b2 H2)). rewrite P in C. cbn in C.
  rewrite orb_false_r in C. apply N.eqb_eq. exact C.
Qed.
Lemma esc_head b : (b < 256)%N -> exists c t, esc b = c :: t /\ c <> 34%N.
Proof.
  intros H1. pose proof esc_check_ok as C. unfold esc_check in C. rewrite forallb_forall in C.
  specialize (C b (all_bytes_in b H1)). apply andb_true_iff in C. destruct C as [C _].
  destruct (esc b) as [|c t]; [discriminate|]. exists c, t. split; auto. intros ->. discriminate.
Qed.
Lemma qbody_pf s1 : forall s2 r1 r2, wf_bytes s1 -> wf_bytes s2 ->
  flat_map esc s1 ++ 34%N :: r1 = flat_map esc s2 ++ 34%N :: r2 -> s1 = s2 /\ r1 = r2.
Proof.
  induction s1 as [|b1 s1 IH]; intros [|b2 s2] r1 r2 W1 W2 H; cbn [flat_map] in H.
  - cbn in H. injection H as ->. auto.
  - inversion W2; subst. destruct (esc_head b2) as (c & t & E & N); auto. rewrite E in H. cbn in H. injection H as <-. congruence.
  - inversion W1; subst. destruct (esc_head b1) as (c & t & E & N); auto. rewrite E in H. cbn in H. injection H as ->. congruence.
  - inversion W1; inversion W2; subst. rewrite <- !app_assoc in H.
    assert (b1 = b2) as ->.
    { destruct (app_eq_prefix _ _ _ _ H) as [P|P]; [|symmetry]; apply esc_prefix; auto. }
    apply app_inv_head in H. destruct (IH s2 r1 r2) as [-> ->]; auto.
Qed.
Lemma quote_pf s1 s2 r1 r2 : wf_bytes s1 -> wf_bytes s2 -> quote s1 ++ r1 = quote s2 ++ r2 -> s1 = s2 /\ r1 = r2.
Proof.
  intros W1 W2 H. unfold quote in H. cbn [app] in H. injection H as H. rewrite <- !app_assoc in H. cbn [app] in H.
  eapply qbody_pf; eauto.
Qed.
Lemma render_head j : exists c t, render j = c :: t /\ c <> 93%N.
Proof.
  destruct j as [|[|]|s|l|l]; rewrite ?render_arr, ?render_obj; cbn [render quote]; eexists; eexists; (split; [reflexivity|discriminate]).
Qed.

Definition pf_at (j1 : json) : Prop :=
  json_wf j1 -> forall j2 r1 r2, json_wf j2 -> render j1 ++ r1 = render j2 ++ r2 -> j1 = j2 /\ r1 = r2.
Lemma relems_pf l1 : Forall pf_at l1 -> Forall json_wf l1 -> forall l2 r1 r2, Forall json_wf l2 ->
  relems l1 ++ r1 = relems l2 ++ r2 -> l1 = l2 /\ r1 = r2.
Proof.
  induction l1 as [|x1 l1 IH]; intros P W1 [|x2 l2] r1 r2 W2 H.
  - cbn in H. injection H as ->. auto.
  - cbn [relems] in H. destruct (render_head x2) as (c & t & E & N). rewrite E in H. cbn in H. injection H as <-. congruence.
  - cbn [relems] in H. destruct (render_head x1) as (c & t & E & N). rewrite E in H. cbn in H. injection H as ->. congruence.
  - inversion P as [|? ? Px Pl]; inversion W1 as [|? ? Wx Wl]; inversion W2 as [|? ? Wx2 Wl2]; subst.
    cbn [relems] in H. rewrite <- !app_assoc in H. destruct (Px Wx x2 _ _ Wx2 H) as [-> H'].
    specialize (IH Pl Wl l2 r1 r2 Wl2).
    destruct l1 as [|y1 l1], l2 as [|y2 l2]; cbn [app] in H'; try discriminate.
    + injection H' as ->. auto.
    + injection H' as H'. destruct (IH H') as [E ->]. rewrite E. auto.
Qed.
Definition pf_field (kv : bytes * json) : Prop := pf_at (snd kv).
Lemma rfields_pf l1 : Forall pf_field l1 -> Forall (fun kv => wf_bytes (fst kv) /\ json_wf (snd kv)) l1 ->
  forall l2 r1 r2, Forall (fun kv => wf_bytes (fst kv) /\ json_wf (snd kv)) l2 ->
  rfields l1 ++ r1 = rfields l2 ++ r2 -> l1 = l2 /\ r1 = r2.
Proof.
  induction l1 as [|[k1 v1] l1 IH]; intros P W1 [|[k2 v2] l2] r1 r2 W2 H.
  - cbn in H. injection H as ->. auto.
  - cbn [rfields quote app] in H. discriminate.
  - cbn [rfields quote app] in H. discriminate.
  - inversion P as [|? ? Px Pl]; inversion W1 as [|? ? [Wk Wx] Wl]; inversion W2 as [|? ? [Wk2 Wx2] Wl2]; subst.
    unfold pf_field in Px. cbn [fst snd] in *. cbn [rfields] in H. rewrite <- !app_assoc in H.
    destruct (quote_pf _ _ _ _ Wk Wk2 H) as [-> H']. cbn [app] in H'. injection H' as H'.
    rewrite <- !app_assoc in H'. destruct (Px Wx v2 _ _ Wx2 H') as [-> H''].
    specialize (IH Pl Wl l2 r1 r2 Wl2).
    destruct l1 as [|y1 l1], l2 as [|y2 l2]; cbn [app] in H''; try discriminate.
    + injection H'' as ->. auto.
    + injection H'' as H''. destruct (IH H'') as [E ->]. rewrite E. auto.
Qed.
Lemma render_pf : forall j1, pf_at j1.
Proof.
  induction j1 as [|b|s|l IH|l IH] using json_ind'; intros W1 j2 r1 r2 W2 H.
  - destruct j2 as [|[|]|s2|l2|l2]; rewrite ?render_arr, ?render_obj in H; cbn [render quote app] in H; try discriminate.
    injection H as ->. auto.
  - destruct b, j2 as [|[|]|s2|l2|l2]; rewrite ?render_arr, ?render_obj in H; cbn [render quote app] in H; try discriminate;
      injection H as ->; auto.
  - destruct j2 as [|[|]|s2|l2|l2]; rewrite ?render_arr, ?render_obj in H; cbn [render] in H;
      try (cbn [quote app] in H; discriminate).
    destruct (quote_pf s s2 r1 r2 W1 W2 H) as [-> ->]. auto.
  - destruct j2 as [|[|]|s2|l2|l2]; rewrite ?render_arr, ?render_obj in H; cbn [render quote app] in H; try discriminate.
    injection H as H. apply json_wf_arr in W1. apply json_wf_arr in W2.
    destruct (relems_pf l IH W1 l2 r1 r2 W2 H) as [-> ->]. auto.
  - destruct j2 as [|[|]|s2|l2|l2]; rewrite ?render_arr, ?render_obj in H; cbn [render quote app] in H; try discriminate.
    injection H as H. apply json_wf_obj in W1. apply json_wf_obj in W2.
    destruct (rfields_pf l IH W1 l2 r1 r2 W2 H) as [-> ->]. auto.
Qed.
Theorem render_injective j1 j2 : json_wf j1 -> json_wf j2 -> render j1 = render j2 -> j1 = j2.
Proof.
  intros W1 W2 H. apply (render_pf j1 W1 j2 [] [] W2). rewrite !app_nil_r. exact H.
Qed.

(* ---- canonical forms stay inside the fragment the rendering is exact on ---- *)
Definition fwf (kv : bytes * json) : Prop := wf_bytes (fst kv) /\ json_wf (snd kv).
Lemma aset_fwf (m : amap json) k v : Forall fwf m -> fwf (k, v) -> Forall fwf (aset m k v).
Proof.
  induction m as [|[k0 v0] r IH]; cbn [aset]; intros F Q; [constructor; auto|].
  inversion F; subst. destruct (bcompare k k0); constructor; auto.
Qed.
Lemma cgo_fwf l : forall acc, Forall fwf acc -> Forall (fun kv => wf_bytes (fst kv) /\ json_wf (canon (snd kv))) l -> Forall fwf (cgo l acc).
Proof.
  induction l as [|[k v] r IH]; intros acc Fa Fl; cbn [cgo]; auto.
  inversion Fl as [|? ? [Wk Wv] Fr]; subst. apply IH; auto. apply aset_fwf; auto. split; auto.
Qed.
Lemma canon_wf : forall j, json_wf j -> json_wf (canon j).
Proof.
  induction j as [|b|s|l IH|l IH] using json_ind'; intros W; auto.
  - cbn [canon]. apply json_wf_arr. apply json_wf_arr in W. rewrite Forall_forall in *.
    intros y Hy. apply in_map_iff in Hy. destruct Hy as (x & <- & Hx). apply IH; auto.
  - rewrite canon_obj. apply json_wf_obj. apply json_wf_obj in W. apply cgo_fwf; [constructor|].
    rewrite Forall_forall in *. intros kv Hkv. destruct (W _ Hkv) as [Wk Wv]. split; [exact Wk|apply (IH _ Hkv); exact Wv].
Qed.

(* ---- sign bytes ---- *)
Definition k_chain : bytes := [99; 104; 97; 105; 110; 95; 105; 100]%N.
Definition k_entropy : bytes := [101; 110; 116; 114; 111; 112; 121]%N.
Definition k_fee : bytes := [102; 101; 101]%N.
Definition k_memo : bytes := [109; 101; 109; 111]%N.
Definition k_msg : bytes := [109; 115; 103]%N.
Lemma canon_sign_doc c e m f g :
  canon (sign_doc c e m f g) = JObj [(k_chain, JStr c); (k_entropy, JStr e); (k_fee, canon f); (k_memo, JStr m); (k_msg, canon g)].
Proof. reflexivity. Qed.
(* same logical content (whatever the field order, duplicates or nesting of fee and message) => same bytes *)
Theorem sign_bytes_canonical c e m f g f' g' :
  canon f = canon f' -> canon g = canon g' -> sign_bytes c e m f g = sign_bytes c e m f' g'.
Proof. intros Ef Eg. unfold sign_bytes, sort_json. rewrite !canon_sign_doc, Ef, Eg. reflexivity. Qed.
(* different content => different bytes *)
Theorem sign_bytes_injective c e m f g c' e' m' f' g' :
  wf_bytes c -> wf_bytes e -> wf_bytes m -> json_wf f -> json_wf g ->
  wf_bytes c' -> wf_bytes e' -> wf_bytes m' -> json_wf f' -> json_wf g' ->
  sign_bytes c e m f g = sign_bytes c' e' m' f' g' ->
  c = c' /\ e = e' /\ m = m' /\ canon f = canon f' /\ canon g = canon g'.
Proof.
  intros Wc We Wm Wf Wg Wc' We' Wm' Wf' Wg' H. unfold sign_bytes, sort_json in H. rewrite !canon_sign_doc in H.
  apply render_injective in H.
  - injection H as -> -> Ef -> Eg. auto.
  - apply json_wf_obj. repeat constructor; cbn [fst snd json_wf]; auto; try apply canon_wf; auto; unfold wf_bytes; repeat constructor.
  - apply json_wf_obj. repeat constructor; cbn [fst snd json_wf]; auto; try apply canon_wf; auto; unfold wf_bytes; repeat constructor.
Qed.
