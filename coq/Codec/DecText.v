(* C20: the text form of Dec (types/decimal.go String / NewDecFromStr: eighteen fractional digits, manual zero
   padding, manual placement of the point) as functions on byte strings, and the round trip. *)
From Coq Require Import List ZArith NArith Bool Lia.
From PM Require Import Base.Bytes.
Import ListNotations.
Local Open Scope Z_scope.

(* decimal digits of a non-negative number, most significant first, no leading zeros ("0" for zero) *)
Fixpoint udigits (fuel : nat) (z : Z) : bytes :=
  match fuel with
  | O => [Z.to_N (48 + z mod 10)]
  | S f => if z <? 10 then [Z.to_N (48 + z)] else udigits f (z / 10) ++ [Z.to_N (48 + z mod 10)]
  end.
Definition big_text (z : Z) : bytes := udigits (Z.to_nat (Z.log2 z)) z.       (* big.Int.MarshalText of z >= 0 *)
Definition zeros (n : nat) : bytes := repeat 48%N n.

Definition dec_to_text (z : Z) : bytes :=
  let ds := big_text (Z.abs z) in
  let n := length ds in
  let body := if Nat.leb n 18 then [48%N; 46%N] ++ zeros (18 - n) ++ ds
              else firstn (n - 18) ds ++ [46%N] ++ skipn (n - 18) ds in
  if z <? 0 then 45%N :: body else body.

Definition is_digit (b : N) : bool := ((48 <=? b) && (b <=? 57))%N.
Fixpoint dvalue (acc : Z) (l : bytes) : option Z :=
  match l with
  | [] => Some acc
  | b :: r => if is_digit b then dvalue (acc * 10 + (Z.of_N b - 48)) r else None
  end.
(* strings.Split(s, ".") *)
Fixpoint split_dot (cur : bytes) (l : bytes) : list bytes :=
  match l with
  | [] => [rev cur]
  | b :: r => if (b =? 46)%N then rev cur :: split_dot [] r else split_dot (b :: cur) r
  end.
(* NewDecFromStr restricted to what big.Int.SetString is given digit strings for (a sign inside is Go's business) *)
Definition text_to_dec (s : bytes) : option Z :=
  match s with
  | [] => None
  | b0 :: r0 =>
    let '(neg, s1) := if (b0 =? 45)%N then (true, r0) else (false, s) in
    match s1 with
    | [] => None
    | _ =>
      let combined :=
        match split_dot [] s1 with
        | [i] => Some (i ++ zeros 18)
        | [i; f] => if (Nat.eqb (length f) 0 || Nat.eqb (length i) 0 || Nat.ltb 18 (length f))%bool then None
                    else Some (i ++ f ++ zeros (18 - length f))
        | _ => None
        end in
      match combined with
      | None => None
      | Some [] => None
      | Some c => match dvalue 0 c with Some v => Some (if neg then - v else v) | None => None end
      end
    end
  end.

(* ---------- proofs ---------- *)
Definition all_digits (l : bytes) : Prop := Forall (fun b => is_digit b = true) l.
Lemma is_digit_of z : 0 <= z < 10 -> is_digit (Z.to_N (48 + z)) = true /\ Z.of_N (Z.to_N (48 + z)) - 48 = z.
Proof. intros H. unfold is_digit. split; [apply andb_true_iff; split; apply N.leb_le; lia|lia]. Qed.
Lemma udigits_spec f : forall z, 0 <= z -> Z.log2 z <= Z.of_nat f ->
  all_digits (udigits f z) /\ (0 < length (udigits f z))%nat /\
  forall acc rest, dvalue acc (udigits f z ++ rest) = dvalue (acc * 10 ^ Z.of_nat (length (udigits f z)) + z) rest.
Proof.
  induction f as [|f IH]; intros z Hz Hl.
  - assert (z < 2).
    { destruct (Z.eq_dec z 0); [lia|]. change 2 with (2 ^ 1). apply Z.log2_lt_pow2; lia. }
    assert (Em : z mod 10 = z) by (apply Z.mod_small; lia). cbn [udigits]. rewrite Em.
    destruct (is_digit_of z ltac:(lia)) as [D V]. split; [repeat constructor; auto|]. split; [simpl; lia|].
    intros acc rest. cbn [app dvalue length]. rewrite D, V. change (10 ^ Z.of_nat 1) with 10. reflexivity.
  - cbn [udigits]. destruct (Z.ltb_spec z 10) as [L|G].
    + destruct (is_digit_of z ltac:(lia)) as [D V]. split; [repeat constructor; auto|]. split; [simpl; lia|].
      intros acc rest. cbn [app dvalue length]. rewrite D, V. change (10 ^ Z.of_nat 1) with 10. reflexivity.
    + assert (Hq : 0 <= z / 10) by (apply Z.div_pos; lia).
      assert (Lq : Z.log2 (z / 10) <= Z.of_nat f).
      { assert (z / 10 <= z / 2) by (apply Z.div_le_compat_l; lia).
        assert (Z.log2 (z / 10) <= Z.log2 (z / 2)) by (apply Z.log2_le_mono; auto).
        rewrite <- Z.div2_div, Z.div2_spec, Z.log2_shiftr in H0 by lia. lia. }
      destruct (IH (z / 10) Hq Lq) as (A & Ln & V).
      pose proof (Z.mod_pos_bound z 10 ltac:(lia)) as Hm. destruct (is_digit_of (z mod 10) Hm) as [D Vd].
      split; [apply Forall_app; split; [exact A|repeat constructor; auto]|]. split; [rewrite app_length; simpl; lia|].
      intros acc rest. rewrite <- app_assoc, V. cbn [app dvalue]. rewrite D, Vd. f_equal.
      rewrite app_length. cbn [length]. rewrite Nat2Z.inj_add. change (Z.of_nat 1) with 1. rewrite Z.pow_add_r by lia.
      change (10 ^ 1) with 10. pose proof (Z.div_mod z 10 ltac:(lia)). lia.
Qed.
Lemma big_text_spec z : 0 <= z -> all_digits (big_text z) /\ (0 < length (big_text z))%nat /\
  forall acc rest, dvalue acc (big_text z ++ rest) = dvalue (acc * 10 ^ Z.of_nat (length (big_text z)) + z) rest.
Proof. intros H. apply udigits_spec; auto. rewrite Z2Nat.id by apply Z.log2_nonneg. lia. Qed.
Lemma zeros_value n : forall acc rest, dvalue acc (zeros n ++ rest) = dvalue (acc * 10 ^ Z.of_nat n) rest.
Proof.
  induction n as [|n IH]; intros acc rest; [simpl; f_equal; lia|].
  cbn [zeros repeat app dvalue]. change (is_digit 48) with true. cbn iota. fold (zeros n). rewrite IH. f_equal.
  rewrite Nat2Z.inj_succ, Z.pow_succ_r by lia. change (Z.of_N 48 - 48) with 0. lia.
Qed.
Lemma zeros_digits n : all_digits (zeros n).
Proof. induction n; simpl; constructor; auto. Qed.
Lemma digit_not_dot b : is_digit b = true -> (b =? 46)%N = false /\ (b =? 45)%N = false.
Proof. unfold is_digit. intros H. apply andb_true_iff in H. destruct H as [H1 H2]. apply N.leb_le in H1, H2. split; apply N.eqb_neq; lia. Qed.
Lemma split_dot_nodot a : all_digits a -> forall cur, split_dot cur a = [rev cur ++ a].
Proof.
  induction a as [|b a IH]; intros A cur; simpl; [rewrite app_nil_r; reflexivity|].
  inversion A; subst. rewrite (proj1 (digit_not_dot b H1)). rewrite IH by auto. simpl. rewrite <- app_assoc. reflexivity.
Qed.
Lemma split_dot_one a r : all_digits a -> forall cur, split_dot cur (a ++ 46%N :: r) = (rev cur ++ a) :: split_dot [] r.
Proof.
  induction a as [|b a IH]; intros A cur; simpl; [rewrite app_nil_r; reflexivity|].
  inversion A; subst. rewrite (proj1 (digit_not_dot b H1)). rewrite IH by auto. simpl. rewrite <- app_assoc. reflexivity.
Qed.

(* integer part I (non-empty digits) and fraction F (exactly eighteen digits) of the printed body *)
Lemma body_roundtrip (I F : bytes) (v : Z) : all_digits I -> all_digits F -> (0 < length I)%nat -> length F = 18%nat ->
  (forall acc rest, dvalue acc (I ++ F ++ rest) = dvalue (acc * 10 ^ Z.of_nat (length (I ++ F)) + v) rest) ->
  forall neg : bool, text_to_dec ((if neg then [45%N] else []) ++ I ++ 46%N :: F) = Some (if neg then - v else v).
Proof.
  intros AI AF LI LF V neg.
  assert (Hd : exists b0 r0, I = b0 :: r0 /\ is_digit b0 = true).
  { destruct I as [|b0 r0]; [simpl in LI; lia|]. inversion AI; subst. eauto. }
  destruct Hd as (b0 & r0 & EI & D0).
  assert (Body : forall s1, s1 = I ++ 46%N :: F ->
     match s1 with
     | [] => None
     | _ => match (match split_dot [] s1 with
                   | [i] => Some (i ++ zeros 18)
                   | [i; f] => if (Nat.eqb (length f) 0 || Nat.eqb (length i) 0 || Nat.ltb 18 (length f))%bool then None
                               else Some (i ++ f ++ zeros (18 - length f))
                   | _ => None end) with
            | None => None
            | Some [] => None
            | Some c => match dvalue 0 c with Some x => Some (if neg then - x else x) | None => None end
            end
     end = Some (if neg then - v else v)).
  { intros s1 ->. rewrite EI at 1. cbn [app]. rewrite split_dot_one by auto. rewrite split_dot_nodot by auto. cbn [rev app].
    rewrite LF. replace (Nat.eqb (length I) 0) with false by (symmetry; apply Nat.eqb_neq; lia).
    cbn [Nat.eqb Nat.ltb Nat.leb orb Nat.sub zeros repeat]. rewrite app_nil_r.
    specialize (V 0 []). rewrite !app_nil_r in V. rewrite V.
    destruct (I ++ F) as [|x xs] eqn:EIF; [rewrite EI in EIF; discriminate EIF|].
    cbn [dvalue]. destruct neg; f_equal; lia. }
  destruct neg; cbn [app].
  - unfold text_to_dec. change ((45 =? 45)%N) with true. cbv iota. apply Body. reflexivity.
  - pose proof (Body (I ++ 46%N :: F) eq_refl) as Bd. unfold text_to_dec. rewrite EI in Bd |- *. cbn [app] in Bd |- *.
    rewrite (proj2 (digit_not_dot b0 D0)). exact Bd.
Qed.

Lemma my_in_firstn {A} (l : list A) : forall m x, In x (firstn m l) -> In x l.
Proof. induction l as [|d l IH]; intros [|m] x H; simpl in H; try contradiction. destruct H as [<-|H]; [left; auto|right; eauto]. Qed.
Lemma my_in_skipn {A} (l : list A) : forall m x, In x (skipn m l) -> In x l.
Proof. induction l as [|d l IH]; intros [|m] x H; simpl in H; try contradiction; auto. right; eauto. Qed.
Theorem dec_text_roundtrip z : text_to_dec (dec_to_text z) = Some z.
Proof.
  unfold dec_to_text. set (ds := big_text (Z.abs z)).
  destruct (big_text_spec (Z.abs z) (Z.abs_nonneg z)) as (A & Ln & V). fold ds in A, Ln, V.
  set (n := length ds) in *.
  assert (Res : forall neg : bool, (if neg then - Z.abs z else Z.abs z) = z -> 
     text_to_dec ((if neg then [45%N] else []) ++
                  (if Nat.leb n 18 then [48%N; 46%N] ++ zeros (18 - n) ++ ds else firstn (n - 18) ds ++ [46%N] ++ skipn (n - 18) ds)) = Some z).
  { intros neg En. rewrite <- En. destruct (Nat.leb_spec n 18) as [Le|Gt].
    - apply (body_roundtrip [48%N] (zeros (18 - n) ++ ds)); auto.
      + repeat constructor.
      + apply Forall_app; split; [apply zeros_digits|exact A].
      + rewrite app_length. unfold zeros. rewrite repeat_length. fold n. lia.
      + intros acc rest. cbn [app dvalue]. change (is_digit 48) with true. cbv iota. change (Z.of_N 48 - 48) with 0.
        rewrite <- app_assoc, zeros_value, V. f_equal. cbn [length]. rewrite app_length. replace (length (zeros (18 - n))) with (18 - n)%nat by (unfold zeros; rewrite repeat_length; reflexivity). fold n.
        rewrite Nat2Z.inj_succ, Nat2Z.inj_add, Z.pow_succ_r, Z.pow_add_r by lia. lia.
    - apply (body_roundtrip (firstn (n - 18) ds) (skipn (n - 18) ds)).
      + apply Forall_forall. intros x Hx. apply (proj1 (Forall_forall _ _) A). eapply my_in_firstn; eauto.
      + apply Forall_forall. intros x Hx. apply (proj1 (Forall_forall _ _) A). eapply my_in_skipn; eauto.
      + rewrite firstn_length. fold n. lia.
      + rewrite skipn_length. fold n. lia.
      + intros acc rest. rewrite app_assoc, firstn_skipn. apply V. }
  destruct (Z.ltb_spec z 0); [apply (Res true); lia|apply (Res false); lia].
Qed.
