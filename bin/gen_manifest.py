#!/usr/bin/env python3
"""Writes MANIFEST.json from the table below (kept in one place so the manifest always validates)."""
import json, os
HERE = os.path.dirname(os.path.dirname(os.path.abspath(__file__)))
ALL = ["C%02d" % i for i in range(1, 21)]

CLAIMED = {
 "C18": dict(
    engine="num",
    technique="Coq proof (exact-arithmetic theorems over Z, by lia/nia and induction on coin lists) + differential correspondence model vs types.Int/Uint/Dec/Coins",
    text="Machine-checked theorems (coq/Props/C18.v, Closed under the global context) state that the Gallina model of Int/Uint/Dec/Coins IS exact integer/rational arithmetic with panics exactly outside the range, for all operands; Quo/QuoRoundUp are refuted with witnesses (finding F9) and what they do compute is proved. The model is tied to the code by running both on the same seeded operands every run; the implementation is additionally compared with the exact specification functions extracted from Coq.",
    note="Trusted: Coq kernel, extraction (ExtrOcamlBasic only), OCaml driver, Go driver cmd/num, math/big. The model is a hand transcription; conformance is sampled (20k/600k structured cases), the theorems are unbounded.",
    design_ref="§6 C18"),
}
CLAIMED["C15"] = dict(
    engine="kv",
    technique="Coq proof (refinement of cachekv to a sorted-map overlay; merge-iterator state machine = overlay merge, by induction) + differential correspondence model vs store/cachekv",
    text="Machine-checked: the cacheMergeIterator state machine transcribed from the code terminates and yields exactly the overlay of parent and cache items (sorted, duplicate-free, no deleted keys) for every pair of sequences and both directions; Get/Set/Delete/Write on cache nests of any depth refine the plain sorted map (parent untouched until Write, Write leaves parent = overlaid view and a clean wrapper). The model (incl. dirtyItems / memIterator mechanics) is tied to the code by running identical seeded programs on both every run and comparing every result.",
    note="Trusted: Coq kernel, extraction, OCaml/Go drivers, tm-db MemDB as the base store. Partial: dirtyItems/unsorted/sorted-list mechanics are modelled and compared but their invariant is not yet proved; goroutine data-race freedom is outside a Gallina model (each entry point is one atomic step under the mutex).",
    design_ref="§6 C15")
CLAIMED["C16"] = dict(
    engine="kv",
    technique="Coq proof (PrefixEndBytes range characterisation by induction on bytes; gas meter arithmetic by lia) + differential correspondence model vs store/prefix, gaskv, tracekv, types/gas.go",
    text="Machine-checked: [prefix, PrefixEndBytes(prefix)) is exactly the set of keys with that prefix for every non-empty prefix incl. all-0xFF; ConsumeGas adds exactly, raises out-of-gas exactly when the running total crosses the limit and reports (never wraps) an overflow; gas/trace stores return the wrapped store's result and log one line per traced op. The full wrapper models (per-iterator-step gas, trace order, prefix iterators) are compared with the code on random stackings every run, result + gas total + trace after every op.",
    note="Trusted: Coq kernel, extraction, OCaml/Go drivers. tracekv does not trace Has (upstream behaviour) - modelled as coded. uint64 per-byte cost multiplication wraps only for values > 2^62 bytes (modelled as mod 2^64).",
    design_ref="§6 C16")
REASON_NOT_YET = "check not built yet in this round (design in DESIGN.md §6); will be claimed once its model, theorems and correspondence engine exist"

def main():
    checks = []
    for pid in ALL:
        if pid not in CLAIMED:
            continue
        c = CLAIMED[pid]
        checks.append({
            "property_id": pid,
            "quick_cmd": "python3 bin/check %s --tier quick" % pid,
            "thorough_cmd": "python3 bin/check %s --tier thorough" % pid,
            "evidence_file": "evidence/%s.json" % pid,
            "replay_cmd_template": "python3 bin/check %s --replay {path}" % pid,
            "engine": c["engine"],
            "level_claimed": {"category": "proof", "text": c["text"], "design_ref": c["design_ref"]},
            "level_note": c["note"],
            "technique": c["technique"],
        })
    m = {
        "version": 1,
        "setup_cmd": "bash bin/setup.sh",
        "hooks": {
            "guard": "verif",
            "enable": "go build -tags verif (harness module /verif/harness with replace => /repo); no hook file is needed so far, see MANIFEST.hooks",
            "baseline_off_cmd": "cd /repo && GOFLAGS=-mod=mod GOPROXY=off GOSUMDB=off go test -vet=off -count=1 ./...",
            "source_commits": [],
            "add_only": True,
        },
        "engines": [
            {"name": "num", "path": "harness/cmd/num", "serves_properties": ["C18", "C20"],
             "kind_free_text": "differential run of types.Int/Uint/Dec/Coins against the extracted Coq model and exact specs"},
            {"name": "kv", "path": "harness/cmd/kv", "serves_properties": ["C15", "C16"],
             "kind_free_text": "random programs on random stackings of cachekv/prefix/gaskv/tracekv over MemDB vs the extracted Coq store model"},
        ],
        "checks": checks,
        "not_applicable": [{"property_id": p, "reason": REASON_NOT_YET} for p in ALL if p not in CLAIMED],
        "notes": "Technique family: machine-checked proof in Coq 8.16.1 + checked correspondence (see DESIGN.md). known_findings.json lists recorded defects.",
    }
    json.dump(m, open(os.path.join(HERE, "MANIFEST.json"), "w"), indent=1)

if __name__ == "__main__":
    main()
