#!/usr/bin/env python3
"""Writes MANIFEST.json from the table below (kept in one place so the manifest always validates)."""
import json, os
HERE = os.path.dirname(os.path.dirname(os.path.abspath(__file__)))
ALL = ["C%02d" % i for i in range(1, 21)]

CLAIMED = {
 "C18": dict(
    engine="num",
    technique="Coq proof (exact-arithmetic theorems over Z, by lia/nia and induction on coin lists) + differential correspondence model vs types.Int/Uint/Dec/Coins",
    text="Machine-checked theorems (coq/Props/C18.v, Closed under the global context) state that the Gallina model of Int/Uint/Dec/Coins IS exact integer/rational arithmetic with panics exactly outside the range, for all operands; Quo/QuoRoundUp are refuted with witnesses (finding F9) and what they do compute is proved. The model is tied to the code by running both on the same seeded operands every run; the implementation is additionally compared with the exact specification functions extracted from Coq.",
    note="Trusted: Coq kernel, extraction (ExtrOcamlBasic only), OCaml driver, Go driver cmd/num, math/big. The model is a hand transcription; conformance is sampled (20k/600k structured cases), the theorems are unbounded.",
    design_ref="§6 C18"),
}
CLAIMED["C15"] = dict(
    engine="kv",
    technique="Coq proof (refinement of cachekv to a sorted-map overlay; merge-iterator state machine = overlay merge, by induction) + differential correspondence model vs store/cachekv + schedule-directed concurrent scenarios explained by a sequential order of the model",
    text="Machine-checked: the cacheMergeIterator state machine transcribed from the code terminates and yields exactly the overlay of parent and cache items (sorted, duplicate-free, no deleted keys) for every pair of sequences and both directions; Get/Set/Delete/Write on cache nests of any depth refine the plain sorted map (parent untouched until Write, Write leaves parent = overlaid view and a clean wrapper); Iterator/ReverseIterator over any range on a nest of any depth return exactly the in-range items of the overlaid view, through the implementation's own unsorted/sorted cache structure (invariant dinv). The model (incl. dirtyItems / memIterator mechanics) is tied to the code by running identical seeded programs on both every run and comparing every result.",
    note="Trusted: Coq kernel, extraction, OCaml/Go drivers, tm-db MemDB as the base store. The dirtyItems/unsortedCache/sortedCache mechanics are proved too (Store/DirtyProofs.v: the items handed to the merge iterator are exactly the dirty entries in range; iterating a cache nest of any depth yields exactly the in-range items of the overlaid view). Partial: goroutine schedules: in the model each entry point is one atomic step (the mutex); the `lin` engine holds a reader open inside the parent read while a writer runs and requires the outcome to equal one of the two sequential orders of the model - directed schedules, not all interleavings; data-race freedom in the Go memory-model sense is not checked.",
    design_ref="§6 C15")
CLAIMED["C16"] = dict(
    engine="kv",
    technique="Coq proof (PrefixEndBytes range characterisation by induction on bytes; gas meter arithmetic by lia; iterator-step gas by induction over the iterated items) + differential correspondence model vs store/prefix, gaskv, tracekv, types/gas.go",
    text="Machine-checked: [prefix, PrefixEndBytes(prefix)) is exactly the set of keys with that prefix for every non-empty prefix incl. all-0xFF; ConsumeGas adds exactly, raises out-of-gas exactly when the running total crosses the limit and reports (never wraps) an overflow; gas/trace stores return the wrapped store's result and log one line per traced op; a complete iterator loop over a gas store returns exactly the in-range items, charges per-byte*len(value) + the flat step cost per item (the first item once more at creation) and runs out of gas at exactly the step that crosses the limit (induction over the items, Store/IterGas.v), also when a prefix store sits between the gas store and the map (keys stripped, values charged); a complete loop over a traced store logs exactly one iterKey and one iterValue line per item in order. The full wrapper models (per-iterator-step gas, trace order, prefix iterators) are compared with the code on random stackings every run, result + gas total + trace after every op.",
    note="Trusted: Coq kernel, extraction, OCaml/Go drivers. tracekv does not trace Has (upstream behaviour) - modelled as coded. uint64 per-byte cost multiplication wraps only for values > 2^62 bytes (modelled as mod 2^64).",
    design_ref="§6 C16")
CLAIMED["C02"] = dict(
    engine="app",
    technique="Coq proof (invariant supply = sum of balances over all histories of the L1 model, by induction over ops) + step-wise differential correspondence + independent oracle on the implementation's raw store dumps",
    text='bank_ok (accounts form a map, their sum equals the recorded supply, no balance negative) is proved preserved by EVERY function of the application model (bank primitives, stake/unstake/slash/force-unstake/jail, rewards, awards, burns, fees, DAO, BeginBlock/EndBlock) and hence in every reachable state of every history; mint/burn move the supply by exactly their amount, sends never do.',
    note="Trusted: Coq kernel, extraction, OCaml/Go drivers incl. the projection of raw store bytes to the compared state and the emulated Tendermint set; ed25519/amino/IAVL as used by the real code. The L1 model is a hand transcription of x/auth, x/pos, x/gov and the baseapp block cycle (single denomination); Go panics outside runTx are [None] (block aborts).",
    design_ref="§6 C02")
CLAIMED["C03"] = dict(
    engine="app",
    technique='Coq proof over the ideal-signature abstraction (acceptance implies key=signer, valid signature, fee, no replay) + differential correspondence with real ed25519 transactions + oracle',
    text="ante accept => the verifying key is the declared signer's, it signed exactly the current sign doc, the tx is not in the index, fee >= required and the fee is moved from the signer; forged / mutated / replayed txs are rejected.",
    note="Trusted: Coq kernel, extraction, OCaml/Go drivers incl. the projection of raw store bytes to the compared state and the emulated Tendermint set; ed25519/amino/IAVL as used by the real code. The L1 model is a hand transcription of x/auth, x/pos, x/gov and the baseapp block cycle (single denomination); Go panics outside runTx are [None] (block aborts).",
    design_ref="§6 C03")
CLAIMED["C04"] = dict(
    engine="app",
    technique='Coq proof: history-level invariant (pool >= sum of recorded stake of not-unstaked validators, unstaked record nothing, no negative stake) over all histories + exact step lemmas + oracle pool = sum(stake) on the implementation + correspondence',
    text='Proved for every history (C04_pool_backs_stake_all_histories, premises: distinct module addresses, no tx signed by the pool address): the pool balance backs the recorded stake one-for-one (>=; surplus only through deposits to the pool address); stake moves exactly msg.Value account->pool->record. Exact equality pool = sum(stake) is checked after every op on the implementation.',
    note="Trusted: Coq kernel, extraction, OCaml/Go drivers incl. the projection of raw store bytes to the compared state and the emulated Tendermint set; ed25519/amino/IAVL as used by the real code. The L1 model is a hand transcription of x/auth, x/pos, x/gov and the baseapp block cycle (single denomination); Go panics outside runTx are [None] (block aborts).",
    design_ref="§6 C04")
CLAIMED["C05"] = dict(
    engine="app",
    technique='Coq proof (byte order of power-rank keys = (power, inverted address); injectivity; over all histories every index entry is a staked unjailed validator under the key of its current stake) + oracle comparing the emulated Tendermint set with top-N after every EndBlock + correspondence',
    text="Proved: reverse iteration of the power index is power-descending/address-ascending and keys are injective; in every reachable state every index entry is a staked unjailed validator under the key of its current stake; every batch returned by UpdateTendermintValidators is applicable to the set told to Tendermint so far (no address twice, no negative power, removals only of members) and the record of the module afterwards is that set with the batch applied, which is exactly the first MaxValidators entries of the index walked from the top, each with power floor(stake/10^6). Checked on the implementation: the batch yields exactly the top-MaxValidators staked unjailed set on the emulated Tendermint set; updates equal the model's.",
    note="Trusted: Coq kernel, extraction, OCaml/Go drivers incl. the projection of raw store bytes to the compared state and the emulated Tendermint set; ed25519/amino/IAVL as used by the real code. The L1 model is a hand transcription of x/auth, x/pos, x/gov and the baseapp block cycle (single denomination); Go panics outside runTx are [None] (block aborts).",
    design_ref="§6 C05")
CLAIMED["C06"] = dict(
    engine="app",
    technique='Coq proof over all histories (power index sound; every unstaking validator queued under its completion time; EndBlock leaves nobody whose completion time is reached; maturity never early) + transition/queue/index oracle on the implementation + correspondence',
    text='Proved over all histories: the power index lists EXACTLY the staked unjailed validators under the key of their current stake (sound always; complete for well-formed addresses); every unstaking validator is queued under its completion time and every queued address is such a validator; EndBlock releases everybody whose time has come and nobody early; payout conserves. Checked after every op on the implementation: index exactness, queue membership, legal transitions, exact and timely payout.',
    note="Trusted: Coq kernel, extraction, OCaml/Go drivers incl. the projection of raw store bytes to the compared state and the emulated Tendermint set; ed25519/amino/IAVL as used by the real code. The L1 model is a hand transcription of x/auth, x/pos, x/gov and the baseapp block cycle (single denomination); Go panics outside runTx are [None] (block aborts).",
    design_ref="§6 C06")
CLAIMED["C07"] = dict(
    engine="app",
    technique='Coq proof (slash amount = trunc(power*10^6*fraction) exactly; slashing conserves) + oracle on stake/pool/supply deltas at BeginBlock + correspondence',
    text='Proved: the Dec pipeline in slash() computes exactly trunc(p*10^6*f) and every slash/force-unstake/double-sign path keeps supply = sum of balances. Checked: burn = stake removed = pool delta = supply delta, force-unstake below the minimum.',
    note="Trusted: Coq kernel, extraction, OCaml/Go drivers incl. the projection of raw store bytes to the compared state and the emulated Tendermint set; ed25519/amino/IAVL as used by the real code. The L1 model is a hand transcription of x/auth, x/pos, x/gov and the baseapp block cycle (single denomination); Go panics outside runTx are [None] (block aborts).",
    design_ref="§6 C07")
CLAIMED["C08"] = dict(
    engine="app",
    technique='Coq proof (ring-buffer update rule = sliding window for every window size and vote sequence; threshold = half-even rounding) + sliding-window oracle recomputed from the vote stream on the implementation + correspondence of counter/bit array/offset',
    text='Proved: MinSignedPerWindow is the half-even rounding of fraction*window. Checked for every vote: counter = misses in the last W votes = stored bits, jailed at exactly the first crossing after start+W, window cleared.',
    note="Trusted: Coq kernel, extraction, OCaml/Go drivers incl. the projection of raw store bytes to the compared state and the emulated Tendermint set; ed25519/amino/IAVL as used by the real code. The L1 model is a hand transcription of x/auth, x/pos, x/gov and the baseapp block cycle (single denomination); Go panics outside runTx are [None] (block aborts).",
    design_ref="§6 C08")
CLAIMED["C09"] = dict(
    engine="app",
    technique='Coq proof (unjail preconditions; over all histories: jailed validators have no index entry, a tombstone is never lifted and a tombstoned validator stays jailed and never regains an index entry) + oracle + correspondence',
    text='Proved: unjail succeeds only if jailed, stake >= minimum, not tombstoned, time >= jailed-until, and re-indexes a staked validator under its remaining stake; jailing removes the index entry; double-sign tombstones and a tombstoned validator never unjails.',
    note="Trusted: Coq kernel, extraction, OCaml/Go drivers incl. the projection of raw store bytes to the compared state and the emulated Tendermint set; ed25519/amino/IAVL as used by the real code. The L1 model is a hand transcription of x/auth, x/pos, x/gov and the baseapp block cycle (single denomination); Go panics outside runTx are [None] (block aborts).",
    design_ref="§6 C09")
CLAIMED["C10"] = dict(
    engine="app",
    technique='Coq proof (award queue emptied, one award mints exactly its amount, rewards conserve) + balance oracle at every BeginBlock + correspondence',
    text='Proved: the whole fee-collector balance goes to the previous proposer (or stays in the pos account), the collector is empty afterwards, no other balance and not the supply move; the award queue is empty after BeginBlock and an award mints exactly its amount. Checked at every BeginBlock on the implementation: collector -> proposer (or pos account) in full, every award paid once.',
    note="Trusted: Coq kernel, extraction, OCaml/Go drivers incl. the projection of raw store bytes to the compared state and the emulated Tendermint set; ed25519/amino/IAVL as used by the real code. The L1 model is a hand transcription of x/auth, x/pos, x/gov and the baseapp block cycle (single denomination); Go panics outside runTx are [None] (block aborts).",
    design_ref="§6 C10")
CLAIMED["C11"] = dict(
    engine="app",
    technique='Coq proof (rejected => state equal; failing handler wrote nothing, only the fee moved) + oracle comparing all store sections before/after rejected txs + correspondence',
    text="Proved on the model transcribed in source order of checks and writes: a rejected tx returns the identical state; a handler error leaves exactly ante's state (fee paid). Checked on the implementation for every rejected tx of every history.",
    note="Trusted: Coq kernel, extraction, OCaml/Go drivers incl. the projection of raw store bytes to the compared state and the emulated Tendermint set; ed25519/amino/IAVL as used by the real code. The L1 model is a hand transcription of x/auth, x/pos, x/gov and the baseapp block cycle (single denomination); Go panics outside runTx are [None] (block aborts).",
    design_ref="§6 C11")
CLAIMED["C17"] = dict(
    engine="app",
    technique='Coq proof (parameter change implies ACL owner, changes that parameter alone; DAO moves need the DAO owner, exact amount within balance) + oracle over the raw parameter store + correspondence',
    text='Proved: over the whole block cycle no operation changes any parameter, the ACL, the DAO owner or the upgrade plan except a delivered change-parameter / upgrade transaction sent by the ACL owner of that key (C17_only_the_owners_tx_changes_parameters); such a change alters that parameter alone; DAO moves need the DAO owner, exact amount within balance. The oracle diffs every parameter of every subspace before/after each op on the implementation.',
    note="Trusted: Coq kernel, extraction, OCaml/Go drivers incl. the projection of raw store bytes to the compared state and the emulated Tendermint set; ed25519/amino/IAVL as used by the real code. The L1 model is a hand transcription of x/auth, x/pos, x/gov and the baseapp block cycle (single denomination); Go panics outside runTx are [None] (block aborts).",
    design_ref="§6 C17")
CLAIMED["C12"] = dict(
    engine="ms",
    technique='Coq proof on the L2 multistore model (a commit adds exactly the new version, removes exactly the released one, leaves the others untouched) + shadow-copy oracle and correspondence on rootmulti/iavl/transient',
    text='Proved on the model of rootmulti + iavl wrapper over a contract-level IAVL: what SaveVersion + the pruning rule do to the set of versions on disk, that working-tree writes never touch the disk, transient reset; for the whole multistore with any number of substores: after a completed commit, reopening gives every substore at the new version with exactly its working content and the same commit id (C12_multistore_commit_durable). Checked on the implementation for every history: version +1, hash reported by LastCommitID and after reopen, content of every retained version, pruned versions unreadable, transient empty.',
    note="Trusted: Coq kernel, extraction, OCaml/Go drivers, the crash-instrumented dbm.DB wrapper; tendermint/iavl v0.12.4 and tm-db are modelled by their contracts (one batch = one atomic write unit; IAVL node versions are not part of the model's hash). Known findings F8, F17a/b, F18a/b, F20 are listed in known_findings.json.",
    design_ref="§6 C12")
CLAIMED["C13"] = dict(
    engine="ms",
    technique='Coq proof with the crash points enumerated in the theorem (any prefix of the write units reopens the old version when keepRecent >= 1; refuted with a witness for keepRecent = 0) + crash injection after every DB write unit on the implementation',
    text="Proved: after any prefix of a substore commit's atomic write units the previous version loads with its old content if keepRecent >= 1; for the whole multistore with any number of substores: a commit cut short at ANY write unit reopens every substore at the old version with its old content (C13_multistore_crash_safe); the statement is false for keepRecent = 0 (witness = finding F8); replay onto an already saved version is idempotent. On the implementation every commit write unit of every history is used as a crash point on a MemDB wrapper, the store is reopened, compared with old/new shadow content, the block re-executed and its hash compared with an uninterrupted twin.",
    note="Trusted: Coq kernel, extraction, OCaml/Go drivers, the crash-instrumented dbm.DB wrapper; tendermint/iavl v0.12.4 and tm-db are modelled by their contracts (one batch = one atomic write unit; IAVL node versions are not part of the model's hash). Known findings F8, F17a/b, F18a/b, F20 are listed in known_findings.json.",
    design_ref="§6 C13")
CLAIMED["C14"] = dict(
    engine="ms",
    technique='Coq proof (query at a retained height returns the value committed there regardless of later writes/commits; pruned/future heights return nothing) + proof verification against the app hash of every height on the implementation',
    text='Proved on the model; Merkle proofs are an oracle of the model and are checked on the implementation: every returned proof is verified with the real ProofRuntime against the app hash of EVERY committed height (must verify for the queried height and only for it).',
    note="Trusted: Coq kernel, extraction, OCaml/Go drivers, the crash-instrumented dbm.DB wrapper; tendermint/iavl v0.12.4 and tm-db are modelled by their contracts (one batch = one atomic write unit; IAVL node versions are not part of the model's hash). Known findings F8, F17a/b, F18a/b, F20 are listed in known_findings.json.",
    design_ref="§6 C14")
CLAIMED["C01"] = dict(
    engine="app",
    technique="Coq proof (commit hash independent of the substore commit order; model functions) + replay of every history on fresh / restarted / read-only-interleaved instances of the implementation, comparing all responses and app hashes",
    text="Proved: the app hash is a function of the name-sorted substore commit ids, so Go's map iteration order at Commit cannot reach it. Checked on the implementation: every generated history is replayed on a fresh instance, on an instance stopped after a random Commit and reopened from its DB, and with CheckTx/Simulate/Query traffic interleaved; codes, data, events, validator updates and app hashes must be identical; an uninterrupted twin multistore must commit identical hashes.",
    note="Trusted: Coq kernel, Go drivers. That map order, the validator decode cache and the goroutine-driven IAVL iterator are the only nondeterminism sources is checked by the differential runs, not proved.",
    design_ref="§6 C01")
CLAIMED["C19"] = dict(
    engine="keys",
    technique="Coq proof over ideal primitives (multisig verification <-> every key signed in its own position, recursively; keybase state machine: wrong passphrase changes nothing, export/import round trip) + differential correspondence with real ed25519/secp256k1 keys, nested multisig keys and the real keybase",
    text="Proved on a model with ideal signatures and ideal authenticated encryption: VerifyBytes of an N-of-N positional multisig key succeeds iff there are exactly N signatures and the i-th verifies under the i-th key (nested keys recursively); a wrong passphrase never yields a key and never deletes or alters one; export then import gives the same key and address. The model is compared with the real code on thousands of key/signature trees with mutations and on keybase histories.",
    note="Trusted: Coq kernel, extraction, OCaml/Go drivers. PARTIAL by nature: 'verifies under no other key or message' is unforgeability of ed25519/secp256k1, and 'wrong passphrase never yields a key' is authenticity of scrypt+AES-GCM; both are hypotheses of the model (ideal primitives), exercised but not proved.",
    design_ref="§6 C19")
CLAIMED["C20"] = dict(
    engine="codec",
    technique="Coq proof (uvarint/length-prefix round trip, Int/Uint text range checks, canonical JSON: canonical form depends only on the key->content map, rendering prefix-free hence sign bytes injective; rank/time key order and injectivity) + differential correspondence of those byte-level models with amino/SortJSON/StdSignBytes/key builders + round-trip and hostile-bytes oracles on every registered type and CheckTx/DeliverTx",
    text="Proved for all inputs: uvarint-framed payloads decode back to payload and remainder; Int/Uint text decoders accept exactly the representable range; the canonical JSON of an object depends only on its key->content map (field order, duplicates, whitespace, escapes are irrelevant) and the rendering is injective, so sign bytes are equal iff (chain id, entropy, memo, canonical fee, canonical msg) are equal (strings: bytes < 0x80 exact, valid UTF-8 passed through); power-rank and time keys order like (power, inverted address) / the UTC time fields and are injective. Tied to the code by running SortJSON, StdSignBytes, amino's uvarint and the key builders against the extracted model every run. PARTIAL: go-amino's reflection-driven struct codec is not modelled - round trips of every type, re-encoding stability and crash-freedom on random/mutated bytes (also through CheckTx/DeliverTx) are decided by generated oracles on the implementation only.",
    note="Trusted: Coq kernel, extraction, OCaml/Go drivers, Go's time package for instant <-> UTC calendar fields (years 0-9999: the format's domain), encoding/json of the pinned toolchain (escapes \\b, \\f). Known finding F21: memos with invalid UTF-8 survive the wire format but collapse to U+FFFD in the sign bytes (different content, same sign bytes).",
    design_ref="§6 C20")
# later additions, appended to the texts above
XI = " Also checked every run (export/import stream): the state after the last Commit of every history goes through the real ExportGenesis -> JSON -> InitGenesis into two fresh instances; the projections this property speaks about must come back unchanged and its invariants must hold in the imported state."
ADD = {
 "C01": " Also: two fresh instances initialised from the same exported genesis must commit the same hash (found F26: InitGenesis wrote Go maps in map order).",
 "C02": XI,
 "C03": " Also proved: whatever key is used (attached to the signature or the one on the account's record, which a genesis file may have filled with somebody else's key) must be the declared signer's own (C03_foreign_key_rejected). The driver runs a transaction index (Tendermint's RPC server code over an in-memory map filled at every Commit): committed transactions are replayed, whatever their earlier result; several fee-multiplier entries in any order; multisig under-payment.",
 "C04": " AND NOT A TOKEN MORE: in every history in which no send / DAO transfer / award names the pool's own address as the recipient the pool holds EXACTLY the recorded stake in every reachable state (C04_pool_holds_exactly_the_stake_all_histories, App/PoolExact.v)." + XI,
 "C05": " The whole history as Tendermint sees it (C05_whole_history_as_seen_by_tendermint): starting from the module's record and applying the batch of every EndBlock, every batch of every history is applicable to the set Tendermint has at that moment and after every EndBlock that set equals the module's record; nothing but EndBlock's update touches the record (generic frame library App/Frames.v)." + XI,
 "C06": " Legal transitions only (C06_only_legal_transitions): in every step of every history the status of every address is unchanged or changes by exactly one of - its own delivered stake (unknown/unstaked -> staked, amount >= minimum), its own begin-unstake (staked -> unstaking), release at an EndBlock (unstaking -> removed), forced unstake in a BeginBlock (any -> unstaked). Restart from an export: index and queue membership are functions of the live records and InitGenesis' rebuild gives them back (C06_restart_from_export_is_identity)." + XI,
 "C07": " The whole effect of one slash in any state satisfying the pool invariant (C07_slash_exact): exactly D = min(amount, stake) - or the whole stake when the remainder falls below the minimum - leaves the validator's record, the pool and the supply; nobody else's balance and no other record changes; a non-positive amount changes nothing; a forced unstake burns the whole remainder.",
 "C08": " Over whole histories (C08_counter_equals_stored_misses_all_histories): in every reachable state the missed counter of every validator equals the number of missed entries stored in its bit array; the ring buffer IS a sliding window for every window size and vote sequence and one vote is one ring step (or a reset when jailed)." + XI,
 "C09": " After ANY update of the validator set a jailed or not-staked validator is absent from the set reported to Tendermint and every member has exactly the power of its stake (C09_jailed_absent_from_the_reported_set); a tombstone is never lifted over any history (C09_tombstoned_forever)." + XI,
 "C10": " The whole award queue (C10_every_queued_award_is_minted_exactly_once): every address receives exactly what was queued for it, newly minted, the supply grows by exactly the sum, nobody else's balance moves, the queue is empty afterwards; awards queued for one address add up.",
 "C11": " The oracle also demands that a statelessly invalid message is never charged and that a rejected transaction creates no account record; messages whose ValidateBasic panics (amounts beyond int64) must come back as error results.",
 "C12": " Over whole histories (C12_retained_version_stays_readable): a version no pruning policy in force ever releases stays readable with exactly the content committed at it. The engine also mounts stores late, loads versions on private copies of the live store, reads through CacheMultiStoreWithVersion with writes pending, and tries failing LoadVersion on the live store.",
 "C14": " Over whole histories, any number of substores (C14_query_after_any_history): once a height holds content c, after ANY sequence of writes, deletes, commits and pruning changes a query at that height answers with c's value or 'no such version', never with data of another height. Also checked through BaseApp: right after a restart a store query that names no height equals the query at the last committed height.",
 "C17": " DAO funds over the whole block cycle (C17_dao_balance_falls_only_by_the_owners_message): the DAO balance never goes down except in a delivered DAO message of the DAO owner, and then by at most the stated amount. Read-only traffic (ACL queries right after a hand-over) must not change what the next governance message does." + XI,
 "C16": " Stackings are also built with the stores' own CacheWrap / CacheWrapWithTrace and as a cache multistore branched from a cache multistore with tracing.",
 "C18": " The driver also covers the int64-operand variants (AddRaw..ModRaw), comparisons, quotients a hair away from a multiple of 10^-18 on either side and of either sign, products at the 255-bit bound, and damage to the shared constants (ZeroInt, OneDec, ...) through decoders.",
 "C19": " Keybase histories include updates to the empty passphrase followed by signing under the new and the old passphrase.",
 "C20": " Also: integers that were never set go through JSON and back; wrong-length keys under a key-type tag must be refused; Dec text round trip proved for every value.",
}
RS = " The observed instance itself is stopped and reopened from its database after random Commits (to the model the identity), so everything compared also covers what survives a restart."
ADD4 = {
 "C01": " The consensus-parameter twin is also run with read-only traffic interleaved (a gas meter shared between CheckTx and DeliverTx shows there)." + RS,
 "C02": " The invariant also holds in every history run under consensus parameters that admit ed25519 validator keys only (C02_all_histories_under_key_restriction: run_cp, App/KeyTypes.v - any invariant the ordinary step and the ante handler preserve is preserved). A third denomination that sorts after the staking one; accounts that hold nothing else." + RS,
 "C03": " secp256k1 signers; signatures with one byte more, one less, one bit flipped; multisignature slots signed by another key, left empty, all left empty, one byte longer; memos changed after signing in white space only." + RS,
 "C04": " Both history-level statements also hold in every history under the key-type restriction (C04_pool_backs_stake_under_key_restriction, C04_pool_holds_exactly_the_stake_under_key_restriction; App/KeyTypesMore.v). Awards queued for nobody's address, for module addresses and for longer addresses (an award to the pool's own address is a gift, as in the theorem's hypothesis)." + RS,
 "C05": " The guard in front of InitChain: a genesis file that repeats a validator key, at any position, must be refused by ValidateGenesis (control: the same file without the repeated entry is accepted)." + RS,
 "C06": " Directed: two validators begin unstaking in one block (one queue slot) and the one queued first is convicted of double signing. Index soundness and both queue invariants also hold in every history under the key-type restriction (C06_*_under_key_restriction)." + RS, "C07": RS,
 "C08": " Counter = stored misses also in every history under the key-type restriction (C08_counter_equals_stored_misses_under_key_restriction). Every window position of the int64 range has its own stored key and validators never share one (C08_window_positions_have_their_own_keys, C08_validators_never_share_a_position_key). The stored key of a window position (GetValMissedBlockKey) is compared with the model's missed_key - proved injective - for positions over the whole int64 range, and two positions with one key are searched for directly: a window longer than any history the driver can run still has one key per position." + RS,
 "C09": " Tombstone permanence and 'never regains an index entry' also hold over every history under the key-type restriction (C09_*_under_key_restriction). Directed: the minimum stake is raised just above a jailed, still staked validator; when its term is over its unjail must be refused." + RS,
 "C10": RS,
 "C11": " Under consensus parameters that admit ed25519 validator keys only (a third of the histories; model deliver_tx_cp, App/KeyTypes.v, proved equal to deliver_tx without the restriction): a first-time stake under another key type passes the ante handler, pays its fee and leaves nothing else (C11_cp_refuses_other_key_types, C11_cp_handler_err_pays_fee_only). Parameter keys of unknown subspaces, recipients of unusual address length; a process that ends inside DeliverTx is reported with the transaction." + RS,
 "C12": " Stores mounted on databases of their own; the pruning policy enters the model as the numbers the harness chose, never as read back through the accessors the stores use.",
 "C13": " Also through the whole application (engine app): every history is replayed on an instance whose process dies at a random database write of a random Commit; it is reopened, must stand at the complete previous or the complete new height, the interrupted block is executed again and every response and the app hash must equal the uninterrupted run's - with and without genesis consensus parameters.",
 "C14": " Through BaseApp also right after Commits (block 1 included): the default-height and the explicit-height query without proof against a direct read of the live store.",
 "C15": " The cache multistore's own Write, also with store keys of the transient kind.",
 "C16": " A tracing context as BaseApp builds it (block height at construction, transaction hash added to the branch): every later trace record must carry both.",
 "C17": " The whole-block-cycle statement also holds under the key-type restriction (C17_only_the_owners_tx_changes_parameters_under_key_restriction). Messages handed to the governance handler directly (the sender need not hold a key): the owner, a stranger, and addresses differing from the owner's in the case of one letter or in one byte that is no valid text - the model runs handle alone. DAO messages from the owner of the gov/daoOwner PARAMETER (not the DAO owner) must be refused." + RS,
 "C18": " The text form of Dec (String / NewDecFromStr) against the model's dec_to_text / text_to_dec, magnitudes below one of either sign included; Uint.Mul with bit lengths adding up to 255..258; RoundInt64 / TruncateInt64 around +-2^63 at and beside the tie.",
 "C19": " Messages of 4096, 4097 and 70000 bytes with their SHA-256/512 digests as other messages; empty and one-byte-longer signature slots; a second keybase history on the on-disk keybase behind its open-per-call wrapper; signing after every import under the new and under the armor's passphrase.",
 "C20": " Hostile JSON tokens (one value of a good document replaced by a short token of another shape) through amino-JSON of every type and the key types' own UnmarshalJSON; the verifier's sign bytes (ante handler's GetSignBytes on the decoded transaction) must equal the signer's; memos with surrounding white space; window-position keys.",
}
for _k, _v in ADD.items():
    CLAIMED[_k]["text"] = CLAIMED[_k]["text"] + _v
for _k, _v in ADD4.items():
    CLAIMED[_k]["text"] = CLAIMED[_k]["text"] + _v

REASON_NOT_YET = "check not built yet in this round (design in DESIGN.md §6); will be claimed once its model, theorems and correspondence engine exist"

def main():
    checks = []
    for pid in ALL:
        if pid not in CLAIMED:
            continue
        c = CLAIMED[pid]
        checks.append({
            "property_id": pid,
            "quick_cmd": "python3 bin/check %s --tier quick" % pid,
            "thorough_cmd": "python3 bin/check %s --tier thorough" % pid,
            "evidence_file": "evidence/%s.json" % pid,
            "replay_cmd_template": "python3 bin/check %s --replay {path}" % pid,
            "engine": c["engine"],
            "level_claimed": {"category": "proof", "text": c["text"], "design_ref": c["design_ref"]},
            "level_note": c["note"],
            "technique": c["technique"],
        })
    m = {
        "version": 1,
        "setup_cmd": "bash bin/setup.sh",
        "hooks": {
            "guard": "verif",
            "enable": "go build -tags verif (harness module /verif/harness with replace => /repo); no hook file is needed so far, see MANIFEST.hooks",
            "baseline_off_cmd": "cd /repo && GOFLAGS=-mod=mod GOPROXY=off GOSUMDB=off go test -vet=off -count=1 ./...",
            "source_commits": [],
            "add_only": True,
        },
        "engines": [
            {"name": "num", "path": "harness/cmd/num", "serves_properties": ["C18", "C20"],
             "kind_free_text": "differential run of types.Int/Uint/Dec/Coins against the extracted Coq model and exact specs"},
            {"name": "app", "path": "harness/cmd/app", "serves_properties": ["C01","C02","C03","C04","C05","C06","C07","C08","C09","C10","C11","C13","C14","C17"],
             "kind_free_text": "real BaseApp+auth+pos+gov on MemDB driven through ABCI with an emulated Tendermint set; state decoded from raw stores after every op; compared with the extracted L1 model and checked by property oracles"},
            {"name": "ms", "path": "harness/cmd/ms", "serves_properties": ["C12","C13","C14","C01"],
             "kind_free_text": "rootmulti+iavl+transient over a crash-instrumented MemDB: write/commit/reopen/LoadVersion/query histories, crash after every write unit, uninterrupted twin"},
            {"name": "keys", "path": "harness/cmd/keys", "serves_properties": ["C19"],
             "kind_free_text": "real keys, nested multisig verification with mutated signature trees, keybase op histories vs the ideal-primitive model"},
            {"name": "codec", "path": "harness/cmd/codec", "serves_properties": ["C20","C08","C18"],
             "kind_free_text": "amino binary/JSON round trips of all wire and storage types, sign-bytes canonicity and sensitivity, random/mutated bytes through every decoder and CheckTx/DeliverTx, key builders, uvarint frames and canonical JSON vs the extracted byte-level model"},
            {"name": "lin", "path": "harness/cmd/lin", "serves_properties": ["C15"],
             "kind_free_text": "schedule-directed concurrency: a reader held open inside the parent read while a writer runs on the same cachekv wrapper; every outcome must equal one of the two sequential orders on the proved model"},
            {"name": "kv", "path": "harness/cmd/kv", "serves_properties": ["C15", "C16"],
             "kind_free_text": "random programs on random stackings of cachekv/prefix/gaskv/tracekv over MemDB vs the extracted Coq store model"},
        ],
        "checks": checks,
        "not_applicable": [{"property_id": p, "reason": REASON_NOT_YET} for p in ALL if p not in CLAIMED],
        "notes": "Technique family: machine-checked proof in Coq 8.16.1 + checked correspondence (see DESIGN.md). known_findings.json lists recorded defects.",
    }
    json.dump(m, open(os.path.join(HERE, "MANIFEST.json"), "w"), indent=1)

if __name__ == "__main__":
    main()
