"""Shared machinery for /verif/bin/check: build (Consts.v -> make -> extraction -> OCaml -> Go
harness), proof-obligation accounting, known-finding classification, verdicts, evidence."""
import fcntl, hashlib, json, os, re, shutil, subprocess, sys, time

VERIF = os.path.dirname(os.path.dirname(os.path.dirname(os.path.abspath(__file__))))
REPO = os.environ.get("VERIF_REPO", "/repo")
COQ = os.path.join(VERIF, "coq")
HARNESS = os.path.join(VERIF, "harness")
OCAML = os.path.join(VERIF, "ocaml")
WORK = os.path.join(VERIF, "work")
EVID = os.path.join(VERIF, "evidence")
REPLAYS = os.path.join(VERIF, "replays")

GOENV = dict(os.environ, GOFLAGS="-mod=mod", GOPROXY="off", GOSUMDB="off", GOTOOLCHAIN="local",
             CGO_ENABLED="0")

FORBIDDEN = re.compile(r"\b(Admitted|admit|Axiom|Parameter|Conjecture|Unset Guard|bypass_check|"
                       r"type-in-type|impredicative-set|Admit Obligations)\b")


def sh(cmd, cwd=None, env=None, timeout=None, inp=None):
    p = subprocess.run(cmd, cwd=cwd, env=env, timeout=timeout, input=inp, shell=isinstance(cmd, str),
                       stdout=subprocess.PIPE, stderr=subprocess.STDOUT, text=True, errors="replace")
    return p.returncode, p.stdout


class Lock:
    def __init__(self, name):
        os.makedirs(WORK, exist_ok=True)
        self.path = os.path.join(WORK, name + ".lock")

    def __enter__(self):
        self.f = open(self.path, "w")
        fcntl.flock(self.f, fcntl.LOCK_EX)
        return self

    def __exit__(self, *a):
        fcntl.flock(self.f, fcntl.LOCK_UN)
        self.f.close()


class BuildResult:
    def __init__(self):
        self.coq_ok = True
        self.coq_log = ""
        self.coq_failed_file = None
        self.audit = []          # forbidden tokens found
        self.ocaml_ok = True
        self.go_ok = True
        self.go_log = ""
        self.consts_changed = False


def write_if_changed(path, content):
    try:
        if open(path).read() == content:
            return False
    except FileNotFoundError:
        pass
    with open(path, "w") as f:
        f.write(content)
    return True


def go_build(names, res):
    """build harness binaries against the CURRENT /repo tree"""
    os.makedirs(os.path.join(HARNESS, "bin"), exist_ok=True)
    # the harness uses the repo's own go.sum (same dependency set)
    try:
        shutil.copyfile(os.path.join(REPO, "go.sum"), os.path.join(HARNESS, "go.sum"))
    except OSError:
        pass
    for n in names:
        rc, out = sh(["go", "build", "-tags", "verif", "-o", "bin/" + n, "./cmd/" + n], cwd=HARNESS, env=GOENV,
                     timeout=900)
        if rc != 0:
            res.go_ok = False
            res.go_log += out
    return res.go_ok


def build(go_bins, need_consts=True):
    """Regenerates Consts.v from the Go packages, runs the full Coq build (never -vos),
    the audit grep, the OCaml build of the extracted model and the Go harness build."""
    res = BuildResult()
    with Lock("build"):
        bins = list(go_bins)
        if need_consts and os.path.isdir(os.path.join(HARNESS, "cmd", "consts")):
            bins = ["consts"] + bins
        go_build(bins, res)
        if need_consts and res.go_ok and os.path.exists(os.path.join(HARNESS, "bin", "consts")):
            rc, out = sh([os.path.join(HARNESS, "bin", "consts")], cwd=HARNESS, timeout=120)
            if rc == 0 and "Definition" in out:
                res.consts_changed = write_if_changed(os.path.join(COQ, "Consts.v"), out)
            else:
                res.go_ok = False
                res.go_log += "consts generator failed:\n" + out
        if not os.path.exists(os.path.join(COQ, "Makefile")):
            sh("coq_makefile -f _CoqProject -o Makefile", cwd=COQ)
        rc, out = sh("timeout 3000 make -j16 2>&1", cwd=COQ, timeout=3100)
        res.coq_log = out
        if rc != 0:
            res.coq_ok = False
            m = re.search(r'File "\./([^"]+)", line (\d+)', out)
            if m:
                res.coq_failed_file = m.group(1) + ":" + m.group(2)
        # audit: no admitted/axiom/etc anywhere in the development
        for root, _, files in os.walk(COQ):
            for fn in files:
                if fn.endswith(".v"):
                    p = os.path.join(root, fn)
                    txt = open(p).read()
                    txt_nc = re.sub(r"\(\*.*?\*\)", "", txt, flags=re.S)
                    for m in FORBIDDEN.finditer(txt_nc):
                        res.audit.append("%s: %s" % (os.path.relpath(p, COQ), m.group(0)))
        if res.coq_ok:
            rc, out = sh(["bash", os.path.join(OCAML, "build.sh")], timeout=600)
            if rc != 0:
                res.ocaml_ok = False
                res.coq_log += "\nocaml build failed:\n" + out
    return res


def prop_obligations(prop):
    """Counts the property theorems in Props/<prop>.v and re-checks that file, returning
    (obligations, discharged, assumptions_report, theorem names)."""
    path = os.path.join(COQ, "Props", prop + ".v")
    if not os.path.exists(path):
        return 0, 0, "no Props file", []
    txt = open(path).read()
    names = re.findall(r"^(?:Theorem|Example)\s+(\w+)", txt, flags=re.M)
    rc, out = sh("timeout 900 coqc -Q . PM -w -notation-overridden,-deprecated-hint-without-locality Props/%s.v" % prop, cwd=COQ, timeout=1000)
    if rc != 0:
        return len(names), 0, out[-2000:], names
    closed = len(re.findall(r"Closed under the global context", out))
    axioms = re.findall(r"^Axioms:\n((?:.+\n)+?)(?=\n|\Z)", out, flags=re.M)
    report = "%d x 'Closed under the global context'" % closed
    if axioms:
        report += "; Axioms sections: " + " | ".join(a.strip().replace("\n", " ") for a in axioms)
    return len(names), len(names), report, names


TRUSTED_BASE = [
    "Coq 8.16.1 kernel (coqc, full .vo build; vm_compute only in _refuted witnesses and finite sweeps; no native_compute)",
    "Coq stdlib + std++ 1.8.0 + coq-record-update; no Axiom/Parameter/Admitted in /verif/coq (grep-audited every run)",
    "extraction: Require Extraction + ExtrOcamlBasic only (no Extract Constant / Extract Inductive of our own); Z/N/positive stay datatypes; OCaml 4.13.1; ocaml/*.ml driver (text parsing/printing, Zarith only for decimal text)",
    "Go harness /verif/harness (generators, projection of observables) built against /repo's working tree; bin/check (diff, classification)",
    "hand-written model: tied to the code only by the correspondence runs reported in this file",
]


def load_known():
    p = os.path.join(VERIF, "known_findings.json")
    try:
        return json.load(open(p))
    except FileNotFoundError:
        return {"findings": [], "fixed": []}


class Verdict:
    """Collects violations (classified against known_findings.json) for one property run."""

    def __init__(self, prop, tier, seed):
        self.prop, self.tier, self.seed = prop, tier, seed
        self.known = [f for f in load_known().get("findings", []) if f["property"] == prop]
        self.known_hit = {}      # id -> (count, example)
        self.unlisted = []       # list of (what, replay dict)
        self.broken = []         # list of (what, detail) : broken proof/correspondence without concrete input
        self.t0 = time.time()

    def match_known(self, sig):
        for f in self.known:
            fs = f["signature"]
            if all(sig.get(k) == v for k, v in fs.items()):
                return f
        return None

    def violation(self, sig, what, replay):
        """a concrete failing input of the PROPERTY on the implementation"""
        f = self.match_known(sig)
        if f is not None:
            c, ex = self.known_hit.get(f["id"], (0, None))
            self.known_hit[f["id"]] = (c + 1, ex or replay)
        else:
            self.unlisted.append((what, dict(replay, signature=sig)))

    def broken_obligation(self, what, detail):
        self.broken.append((what, detail))

    def finish(self, evidence):
        for f in COQCHK_FAIL:
            self.broken.append(("independent re-check (coqchk) of Props/%s.vo did not come back clean" % self.prop, f))
        os.makedirs(REPLAYS, exist_ok=True)
        os.makedirs(EVID, exist_ok=True)
        rc = 0
        lines = []
        # one line for every finding listed for this property, re-observed by this run's sample or not
        for f in sorted((k for k in self.known if k.get("property") == self.prop), key=lambda k: k["id"]):
            c = self.known_hit.get(f["id"], (0, None))[0]
            lines.append("KNOWN-FINDING: property=%s %s [%s, re-observed %d times in this run]" % (self.prop, f["what"], f["id"], c))
        if self.unlisted:
            rc = 1
            path = os.path.join(REPLAYS, "%s-%s-%d.json" % (self.prop, self.tier, self.seed))
            json.dump({"property": self.prop, "kind": "failing-input", "seed": self.seed,
                       "violations": [dict(what=w, **r) for w, r in self.unlisted[:50]]}, open(path, "w"), indent=1)
            lines.append("VIOLATION property=%s replay=%s" % (self.prop, path))
        elif self.broken:
            rc = 1
            # a proof / correspondence no longer checks and this run saw no concrete failing input: search for one
            # with other seeds before settling for no-failing-input-found
            found, tried = None, []
            if os.environ.get("VERIF_SEARCH") != "1" and any(str(w).startswith("correspondence") for w, _ in self.broken):
                for s in (self.seed + 1, self.seed + 2):
                    tried.append(s)
                    try:
                        p = subprocess.run([sys.executable, os.path.join(VERIF, "bin", "check"), self.prop, "--tier", self.tier, "--seed", str(s)],
                                           env=dict(os.environ, VERIF_SEARCH="1"), stdout=subprocess.PIPE, stderr=subprocess.STDOUT, text=True, errors="replace", timeout=3300)
                    except subprocess.TimeoutExpired:
                        continue
                    hit = [l for l in p.stdout.splitlines() if l.startswith("VIOLATION") and "no-failing-input-found" not in l]
                    if hit:
                        found = hit[0]
                        break
            evidence.setdefault("coverage", {})["failing_input_search"] = {"extra_seeds_tried": tried, "found": found}
            if found:
                lines.append(found)
                evidence["violations"] = 1
                evidence["wall_s"] = round(time.time() - self.t0, 2)
                if os.environ.get("VERIF_SEARCH") != "1":
                    json.dump(evidence, open(os.path.join(EVID, self.prop + ".json"), "w"), indent=1)
                for l in lines:
                    print(l)
                sys.stdout.flush()
                return 1
            path = os.path.join(REPLAYS, "%s-%s-%d-broken.json" % (self.prop, self.tier, self.seed))
            json.dump({"property": self.prop, "kind": "broken-obligation", "seed": self.seed,
                       "no_longer_checks": [dict(what=w, detail=d) for w, d in self.broken[:50]]},
                      open(path, "w"), indent=1)
            lines.append("VIOLATION property=%s replay=%s no-failing-input-found" % (self.prop, path))
        evidence["violations"] = len(self.unlisted) + (len(self.broken) if not self.unlisted else 0)
        evidence["wall_s"] = round(time.time() - self.t0, 2)
        evidence.setdefault("coverage", {})["known_findings_reobserved"] = {k: v[0] for k, v in self.known_hit.items()}
        if os.environ.get("VERIF_SEARCH") != "1":          # a search run of another seed must not overwrite the evidence
            json.dump(evidence, open(os.path.join(EVID, self.prop + ".json"), "w"), indent=1)
        for l in lines:
            print(l)
        sys.stdout.flush()
        return rc


COQCHK_FAIL = []


def coqchk(prop):
    """thorough tier: re-check Props/<prop>.vo and everything it depends on with the independent checker, on a scratch
    copy (coqchk may touch compiled files); returns (ok, summary)"""
    import tempfile
    d = tempfile.mkdtemp(prefix="verif-coqchk-")
    try:
        shutil.copytree(COQ, os.path.join(d, "coq"))
        rc, out = sh("timeout 3300 coqchk -silent -o -Q . PM PM.Props.%s 2>&1" % prop, cwd=os.path.join(d, "coq"), timeout=3400)
        m = re.search(r"\* Axioms:\s*(.*?)\n\s*\n\* Constants/Inductives relying on type-in-type:\s*(.*?)\n\s*\n\* Constants/Inductives relying on unsafe \(co\)fixpoints:\s*(.*?)\n\s*\n\* Inductives whose positivity is assumed:\s*(.*?)\n", out, flags=re.S)
        if rc != 0 or not m:
            return False, "coqchk failed (rc %d): %s" % (rc, out[-600:])
        fields = [x.strip() for x in m.groups()]
        ok = all(f == "<none>" for f in fields)
        return ok, "coqchk -silent -o PM.Props.%s: axioms %s; type-in-type %s; unsafe fixpoints %s; assumed positivity %s" % ((prop,) + tuple(fields))
    finally:
        shutil.rmtree(d, ignore_errors=True)


def base_evidence(prop, tier, seed, build_res, extra_assumptions=()):
    ob, dis, report, names = prop_obligations(prop) if build_res.coq_ok else (0, 0, "coq build failed", [])
    if tier == "thorough" and build_res.coq_ok and os.environ.get("VERIF_NO_COQCHK") != "1":
        ok, summary = coqchk(prop)
        report += "; " + summary
        if not ok:
            COQCHK_FAIL.append(summary)
    ev = {
        "property_id": prop, "tier": tier, "seed": seed, "level": "proof",
        "coverage": {
            "obligations": ob, "discharged": dis,
            "checker_cmd": "make -C /verif/coq (coqc 8.16.1, full .vo) && coqc Props/%s.v" % prop,
            "trusted_base": TRUSTED_BASE + ["Print Assumptions for Props/%s.v: %s" % (prop, report)],
            "theorems": names,
        },
        "assumptions": list(extra_assumptions),
        "wall_s": 0.0, "violations": 0,
    }
    return ev


def check_build(v, res, prop):
    """turn build problems into broken obligations"""
    if not res.go_ok:
        v.broken_obligation("harness does not build against /repo's current tree", res.go_log[-3000:])
    if not res.coq_ok:
        v.broken_obligation("Coq development no longer checks (%s)" % (res.coq_failed_file or "?"), res.coq_log[-3000:])
    elif not res.ocaml_ok:
        v.broken_obligation("the extracted model and its runner (ocaml/build.sh) no longer build: the correspondence check cannot run", res.coq_log[-3000:])
    if res.audit:
        v.broken_obligation("forbidden declarations in the Coq development", "; ".join(res.audit))


def run_engine(name, args, outdir, timeout=3000):
    os.makedirs(outdir, exist_ok=True)
    rc, out = sh([os.path.join(HARNESS, "bin", name)] + args + ["-out", outdir], timeout=timeout, cwd=HARNESS)
    return rc, out


def run_model(engine, ops_path, out_path, timeout=3000):
    with open(ops_path) as fi, open(out_path, "w") as fo:
        p = subprocess.run([os.path.join(OCAML, "modelrun"), engine], stdin=fi, stdout=fo, stderr=subprocess.PIPE,
                           timeout=timeout, text=True, errors="replace")
    return p.returncode, p.stderr


def tier_seed(argv):
    import argparse
    ap = argparse.ArgumentParser()
    ap.add_argument("prop")
    ap.add_argument("--tier", default=os.environ.get("VERIF_TIER", "quick"))
    ap.add_argument("--seed", type=int, default=int(os.environ.get("VERIF_SEED", "1") or 1))
    ap.add_argument("--replay", default=None)
    a = ap.parse_args(argv)
    if a.replay:
        # a replay file names the seeded run that produced it: the same tier and seed reproduce the same operations on the
        # current tree (every random choice of every driver derives from that one seed)
        try:
            j = json.load(open(a.replay))
            a.seed = int(j.get("seed", a.seed))
            base = os.path.basename(a.replay)
            if "-thorough-" in base:
                a.tier = "thorough"
            elif "-quick-" in base:
                a.tier = "quick"
        except Exception as e:
            print("cannot read replay file %s: %s" % (a.replay, e))
    if a.tier not in ("quick", "thorough"):
        a.tier = "quick"
    return a
