#!/usr/bin/env python3
"""Copies the independently confirmed seeded changes (bin/dev/confirm_mutants.py results) into /verif/seeded/<id>/."""
import json, os, shutil, subprocess
MUT = os.environ.get("MUT_DIR", "/tmp/mut")
SUF = os.environ.get("SEED_SUFFIX", "")
R = json.load(open(os.environ.get("CONFIRM_DIR", "/tmp/confirm") + "/results.json"))
head = subprocess.run("git -C /repo rev-parse --short HEAD", shell=True, capture_output=True, text=True).stdout.strip()
os.makedirs("/verif/seeded", exist_ok=True)
for name, r in sorted(R.items()):
    if not r.get("ok"):
        continue
    prop, m = name.split("-")
    src = "%s/%s-out/%s" % (MUT, prop, m)
    name = "%s-%s%s" % (prop, SUF, m)
    dst = "/verif/seeded/%s" % name
    os.makedirs(dst, exist_ok=True)
    shutil.copy(src + "/patch.diff", dst + "/patch.diff")
    shutil.copy(src + "/demo_test.go", dst + "/demo_test.go")
    ok = subprocess.run("git -C /repo apply --check %s/patch.diff" % dst, shell=True).returncode == 0
    old = {}
    if os.path.exists(dst + "/meta.json"):
        old = json.load(open(dst + "/meta.json"))
    meta = {
        "id": name, "breaks_property": prop,
        "what_changed": r.get("summary"),
        "needs_in_order_to_manifest": r.get("needs"),
        "demonstration": {"file": "demo_test.go", "copy_to": r["target"], "run": r["run"]},
        "confirmed_by_me": {
            "how": "bin/dev/confirm_mutants.py in a scratch worktree of /repo (git worktree add --detach /tmp/confirm/wt HEAD): git apply patch.diff; "
                   "go build ./... && go test -vet=off -count=1 ./... (whole existing suite); copy the demonstration in and run it; "
                   "git apply -R patch.diff; run the demonstration again",
            "suite_passes_with_change": r["suite_passes_with_change"],
            "demo_fails_with_change": r["demo_fails_with_change"],
            "demo_passes_without_change": r["demo_passes_without_change"],
        },
        "applies_to_repo_head": {"commit": head, "git_apply_check": ok},
        "origin": "written by a fresh sub-agent that saw only the text of the property and its own scratch worktree of /repo",
    }
    if "detected_by" in old:
        meta["detected_by"] = old["detected_by"]
    json.dump(meta, open(dst + "/meta.json", "w"), indent=1)
    print(name, "applies" if ok else "DOES NOT APPLY to HEAD")
