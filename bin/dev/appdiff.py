import sys, re
def parse(path):
    d={}
    for l in open(path):
        l=l.rstrip('\n')
        ident, rest = l.split(' ',1)
        d[ident]=rest
    return d
def sections(rest):
    parts = rest.split(' ')
    res = parts[0]
    secs = {}
    for p in parts[1:]:
        if ':' in p:
            k,v = p.split(':',1)
            secs[k]=v
    return res, secs
def norm(sec, v):
    if sec=='A':
        return ','.join(x for x in v.split(',') if x and not x.endswith('=0'))
    return v
impl=parse(sys.argv[1]); model=parse(sys.argv[2])
ops={}
cur=None; i=0
for l in open(sys.argv[3]):
    l=l.rstrip('\n')
    if l.startswith('H '): cur=l.split(' ')[1]; i=0
    elif l.split(' ')[0] in ('INIT','BB','TX','AW','BU','EB','CM'):
        ops['%s.%d'%(cur,i)]=l; i+=1
seen=set(); n=0
for ident in impl:
    h=ident.split('.')[0]
    if h in seen: continue
    if ident not in model:
        print(ident,'MISSING in model; op=',ops.get(ident,'?')[:150]); seen.add(h); n+=1; continue
    ri,si=sections(impl[ident]); rm,sm=sections(model[ident])
    diffs=[]
    if ri!=rm: diffs.append(('result',ri,rm))
    for k in sm:
        if norm(k,si.get(k,''))!=norm(k,sm[k]): diffs.append((k,si.get(k,''),sm[k]))
    if diffs:
        seen.add(h); n+=1
        print(ident,'op=',ops.get(ident,'?')[:200])
        for d in diffs[:4]:
            a,b=d[1],d[2]
            # show differing items only
            sa=set(a.split(',')); sb=set(b.split(','))
            print('   ',d[0],'impl-only:',sorted(sa-sb)[:4],'model-only:',sorted(sb-sa)[:4])
print('histories with mismatch:',n,'of',len(set(i.split('.')[0] for i in impl)))
