#!/usr/bin/env python3
"""For every /verif/seeded/<id>: apply the change to /repo's working tree, run the quick check of the property it breaks,
revert, and record the outcome in meta.json (detected_by). Evidence files are saved and restored around the whole run.
usage: run_seeded.py [ids or properties...]"""
import json, os, shutil, subprocess, sys, tempfile
sel = sys.argv[1:]
bk = tempfile.mkdtemp()
shutil.copytree("/verif/evidence", bk + "/evidence")
assert subprocess.run("git -C /repo status --porcelain", shell=True, capture_output=True, text=True).stdout.strip() == "", "/repo not clean"
try:
    for name in sorted(os.listdir("/verif/seeded")):
        d = "/verif/seeded/" + name
        if not os.path.isdir(d) or (sel and name not in sel and name.split("-")[0] not in sel):
            continue
        meta = json.load(open(d + "/meta.json"))
        prop = meta["breaks_property"]
        if subprocess.run("git -C /repo apply %s/patch.diff" % d, shell=True).returncode != 0:
            print(name, "PATCH DOES NOT APPLY"); continue
        try:
            p = subprocess.run("timeout 1500 python3 bin/check %s --tier quick" % prop, shell=True, cwd="/verif", capture_output=True, text=True)
        finally:
            subprocess.run("git -C /repo checkout -- . && git -C /repo clean -fdq", shell=True)
        lines = [l for l in p.stdout.splitlines() if l.startswith("VIOLATION")]
        what = None
        if lines:
            rp = lines[0].split("replay=")[1].split(" ")[0]
            try:
                j = json.load(open(rp))
                if j.get("violations"):
                    what = j["violations"][0]["what"][:400]
                elif j.get("no_longer_checks"):
                    what = "broken obligation: " + str(j["no_longer_checks"][0]["what"])[:400]
            except Exception:
                pass
        meta["detected_by"] = {"check": "python3 bin/check %s --tier quick" % prop, "exit_code": p.returncode, "caught": bool(lines) and p.returncode == 1,
                               "violation_line": lines[0] if lines else None, "first_reported": what}
        json.dump(meta, open(d + "/meta.json", "w"), indent=1)
        print(name, "CAUGHT" if meta["detected_by"]["caught"] else "MISSED", (lines[0][-40:] if lines else ""), flush=True)
finally:
    shutil.rmtree("/verif/evidence"); shutil.copytree(bk + "/evidence", "/verif/evidence"); shutil.rmtree(bk)
