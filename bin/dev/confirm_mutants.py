#!/usr/bin/env python3
"""Confirms seeded changes independently: applies each patch to a scratch worktree of /repo's HEAD, builds, runs the whole
existing suite (must pass), runs the demonstration (must FAIL), reverts the patch, runs the demonstration again (must PASS).
Confirmed ones are copied to /verif/seeded/<prop>-<m>/ with a meta.json."""
import json, os, re, shutil, subprocess, sys
ENV = dict(os.environ, GOFLAGS="-mod=mod", GOPROXY="off", GOSUMDB="off", GOTOOLCHAIN="local")
MUT = os.environ.get("MUT_DIR", "/tmp/mut")
WT = os.environ.get("CONFIRM_DIR", "/tmp/confirm") + "/wt"
OUT = os.environ.get("CONFIRM_DIR", "/tmp/confirm") + "/results.json"

def sh(cmd, cwd=None, timeout=1500):
    p = subprocess.run(cmd, shell=True, cwd=cwd, env=ENV, stdout=subprocess.PIPE, stderr=subprocess.STDOUT, text=True, timeout=timeout)
    return p.returncode, p.stdout

def main():
    os.makedirs(os.path.dirname(OUT), exist_ok=True)
    results = json.load(open(OUT)) if os.path.exists(OUT) else {}
    sh("git -C /repo worktree remove --force %s; git -C /repo worktree prune" % WT)
    rc, o = sh("git -C /repo worktree add -q --detach %s HEAD" % WT)
    assert rc == 0, o
    todo = sys.argv[1:]
    for d in sorted(os.listdir(MUT)):
        if not d.endswith("-out"):
            continue
        prop = d[:-4]
        for m in sorted(os.listdir(MUT + "/" + d)):
            name = "%s-%s" % (prop, m)
            if todo and name not in todo and prop not in todo:
                continue
            if name in results and results[name].get("done") and (results[name].get("ok") or "cannot parse" not in str(results[name].get("why"))):
                continue
            md = "%s/%s/%s" % (MUT, d, m)
            try:
                meta = json.load(open(md + "/meta.json"))
            except Exception as e:
                results[name] = {"done": True, "ok": False, "why": "no meta.json"}
                continue
            demo = str(meta.get("demo", ""))
            tm = re.search(r"((?:x|store|types|baseapp|crypto)/[\w/]*?\w+_test\.go)", demo)
            rm = re.search(r"-run\s+(\S+)\s+(\./\S+)", demo)
            if not rm:
                r1 = re.search(r"-run[\s=]+['\"]?([\w^$|]+)", demo)
                r2 = re.search(r"go test[^\n]*?\s(\./[\w/.]+)", demo)
                if r1 and r2:
                    class _M:
                        def __init__(s, a, b): s.a, s.b = a, b
                        def group(s, i): return s.a if i == 1 else s.b
                    rm = _M(r1.group(1), r2.group(1).rstrip("."))
            if not tm or not rm:
                results[name] = {"done": True, "ok": False, "why": "cannot parse demo instructions: " + demo[:200]}
                continue
            target, runpat, pkg = tm.group(1), rm.group(1), rm.group(2)
            res = {"done": True, "target": target, "run": "go test -vet=off -count=1 -run %s %s" % (runpat, pkg)}
            sh("git checkout -q -- . && git clean -fdq", cwd=WT)
            rc, o = sh("git apply %s/patch.diff" % md, cwd=WT)
            if rc != 0:
                res.update(ok=False, why="patch does not apply to the current (repaired) tree: " + o[-300:])
                results[name] = res
                json.dump(results, open(OUT, "w"), indent=1)
                continue
            rc, o = sh("go build ./... && go test -vet=off -count=1 ./... 2>&1 | grep -v 'no test files'", cwd=WT)
            suite_ok = rc == 0 and "FAIL" not in o
            res["suite_passes_with_change"] = suite_ok
            shutil.copy(md + "/demo_test.go", os.path.join(WT, target))
            rc1, o1 = sh(res["run"], cwd=WT)
            res["demo_fails_with_change"] = rc1 != 0
            sh("git apply -R %s/patch.diff" % md, cwd=WT)
            rc2, o2 = sh(res["run"], cwd=WT)
            res["demo_passes_without_change"] = rc2 == 0
            res["ok"] = bool(suite_ok and rc1 != 0 and rc2 == 0)
            if not res["ok"]:
                res["why"] = ("suite: " + o[-400:] if not suite_ok else "") + (" demo with change: " + o1[-300:] if rc1 == 0 else "") + (" demo without: " + o2[-300:] if rc2 != 0 else "")
            res["summary"] = meta.get("summary"); res["needs"] = meta.get("needs")
            results[name] = res
            json.dump(results, open(OUT, "w"), indent=1)
            print(name, res["ok"], flush=True)
    sh("git -C /repo worktree remove --force %s; git -C /repo worktree prune" % WT)
    json.dump(results, open(OUT, "w"), indent=1)

main()
