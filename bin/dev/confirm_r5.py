#!/usr/bin/env python3
"""Round-5 confirmation of a seeded change written by a sub-agent in /tmp/wt-<prop>-r5 (deliverables in _out/):
in a fresh scratch worktree of /repo's HEAD: git apply patch.diff; go build ./...; whole existing suite (must pass);
copy the demonstration in and run it (must FAIL); git apply -R; run it again (must PASS). A confirmed change is
written to /verif/seeded/<prop>-r5m<N>/ (patch.diff, demo_test.go, meta.json).
usage: confirm_r5.py <prop> <N>"""
import json, os, re, shutil, subprocess, sys
ENV = dict(os.environ, GOFLAGS="-mod=mod", GOPROXY="off", GOSUMDB="off", GOTOOLCHAIN="local")
def sh(cmd, cwd=None, timeout=1800):
    p = subprocess.run(cmd, shell=True, cwd=cwd, env=ENV, stdout=subprocess.PIPE, stderr=subprocess.STDOUT, text=True, timeout=timeout)
    return p.returncode, p.stdout
prop, n = sys.argv[1], sys.argv[2]
src = "/tmp/wt-%s-r5" % prop
out = src + "/_out"
wt = "/tmp/confirm-r5-%s" % prop
sh("git -C /repo worktree remove --force %s; git -C /repo worktree prune" % wt)
rc, o = sh("git -C /repo worktree add -q --detach %s HEAD" % wt); assert rc == 0, o
try:
    # where the agent put its demonstration: the untracked *_test.go in its worktree
    rc, o = sh("git status --porcelain --untracked-files=all", cwd=src)
    demos = [l[3:] for l in o.splitlines() if l.startswith("??") and l.endswith("_test.go") and not l[3:].startswith("_out/")]
    assert len(demos) == 1, demos
    demo = demos[0]
    pkg = "./" + os.path.dirname(demo)
    tests = re.findall(r"^func (Test\w+)\(", open(src + "/" + demo).read(), flags=re.M)
    run = "go test -vet=off -count=1 -run '^(%s)$' %s" % ("|".join(tests), pkg)
    res = {}
    rc, o = sh("git apply %s/patch.diff" % out, cwd=wt); assert rc == 0, o
    rc, o = sh("git diff --stat", cwd=wt); res["diffstat"] = o.strip()
    assert "_test.go" not in o, "patch touches tests"
    rc, o = sh("go build ./... && go test -vet=off -count=1 ./...", cwd=wt)
    res["suite_passes_with_change"] = rc == 0
    if rc != 0: res["suite_log"] = o[-1500:]
    shutil.copy(src + "/" + demo, wt + "/" + demo)
    rc, o = sh(run, cwd=wt); res["demo_fails_with_change"] = rc != 0 and "FAIL" in o and "[build failed]" not in o
    res["demo_out_with"] = o[-600:]
    rc, o = sh("git apply -R %s/patch.diff" % out, cwd=wt); assert rc == 0, o
    rc, o = sh(run, cwd=wt); res["demo_passes_without_change"] = rc == 0
    res["demo_out_without"] = o[-300:]
    ok = res["suite_passes_with_change"] and res["demo_fails_with_change"] and res["demo_passes_without_change"]
    print(json.dumps(res, indent=1))
    if ok:
        name = "%s-r5m%s" % (prop, n)
        dst = "/verif/seeded/" + name
        os.makedirs(dst, exist_ok=True)
        shutil.copy(out + "/patch.diff", dst + "/patch.diff")
        shutil.copy(src + "/" + demo, dst + "/demo_test.go")
        head = sh("git -C /repo rev-parse --short HEAD")[1].strip()
        notes = open(out + "/notes.txt").read() if os.path.exists(out + "/notes.txt") else ""
        meta = {"id": name, "breaks_property": prop,
                "what_changed_and_needs_in_order_to_manifest": notes[:3000],
                "demonstration": {"file": "demo_test.go", "copy_to": demo, "run": run},
                "confirmed_by_me": {"how": "bin/dev/confirm_r5.py in a scratch worktree of /repo (git worktree add --detach): git apply patch.diff; go build ./... && go test -vet=off -count=1 ./... (whole existing suite); copy the demonstration in and run it; git apply -R patch.diff; run the demonstration again",
                                    "suite_passes_with_change": True, "demo_fails_with_change": True, "demo_passes_without_change": True},
                "applies_to_repo_head": {"commit": head, "git_apply_check": sh("git -C /repo apply --check %s/patch.diff" % dst)[0] == 0},
                "origin": "written by a fresh sub-agent that saw only the text of the property and its own scratch worktree of /repo"}
        json.dump(meta, open(dst + "/meta.json", "w"), indent=1)
        print("KEPT", name)
    else:
        print("NOT CONFIRMED")
finally:
    sh("git -C /repo worktree remove --force %s; git -C /repo worktree prune" % wt)
