#!/usr/bin/env python3
"""Prints the markdown table of /verif/seeded/*/meta.json for DESIGN.md II.7."""
import json, os
rows = []
for name in sorted(os.listdir("/verif/seeded")):
    p = "/verif/seeded/%s/meta.json" % name
    if not os.path.exists(p):
        continue
    m = json.load(open(p))
    d = m.get("detected_by", {})
    what = (m.get("what_changed") or "").replace("|", "/").replace("\n", " ")
    what = what[:150] + ("…" if len(what) > 150 else "")
    first = (d.get("first_reported") or "").replace("|", "/").replace("\n", " ")
    first = first[:110] + ("…" if len(first) > 110 else "")
    if d.get("caught"):
        how = "**caught**" + (" (no-failing-input-found)" if "no-failing-input-found" in (d.get("violation_line") or "") else "") + ": " + first
    else:
        how = "**missed**"
    rows.append("| %s | %s | %s |" % (name, what, how))
print("| id | change | quick check of the property |")
print("|---|---|---|")
print("\n".join(rows))
