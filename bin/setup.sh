#!/bin/bash
# MANIFEST.setup_cmd: offline build of the whole framework from files on disk.
set -e
cd "$(dirname "$0")/.."
export GOFLAGS=-mod=mod GOPROXY=off GOSUMDB=off GOTOOLCHAIN=local CGO_ENABLED=0
mkdir -p work evidence replays harness/bin
cp /repo/go.sum harness/go.sum
( cd harness && for d in cmd/*/; do n=$(basename $d); go build -tags verif -o bin/$n ./cmd/$n; done )
if [ -x harness/bin/consts ]; then
  harness/bin/consts > coq/Consts.v.new
  if ! cmp -s coq/Consts.v.new coq/Consts.v; then mv coq/Consts.v.new coq/Consts.v; else rm coq/Consts.v.new; fi
fi
( cd coq && coq_makefile -f _CoqProject -o Makefile >/dev/null && timeout 3000 make -j16 )
bash ocaml/build.sh
echo setup-ok
