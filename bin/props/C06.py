"""C06 — engine `app` (see appcommon.py / apporacles.py and coq/Props/C06.v)."""
import appcommon, apporacles

def run(a):
    return appcommon.run(a, "C06", set("VIQ"), apporacles.c06, "validator lifecycle violated")
