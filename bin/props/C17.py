"""C17 — engine `app` (see appcommon.py / apporacles.py and coq/Props/C17.v)."""
import appcommon, apporacles

def run(a):
    return appcommon.run(a, "C17", set("A"), apporacles.c17, "governance rule violated")
