"""C17 — engine `app` (see appcommon.py / apporacles.py and coq/Props/C17.v), plus the Query/CheckTx/Simulate-interleaved
replay of every history: read-only traffic between two governance transactions must not change what the second one does."""
import os
import appcommon, apporacles


def gov_under_readonly_traffic(v, out, hists, cov, a=None, res=None):
    byid = {h["id"]: h for h in hists}
    n = bad = 0
    for l in open(os.path.join(out, "app.det")):
        hid, variant, rest = l.rstrip("\n").split(" ", 2)
        if variant != "interleaved":
            continue
        n += 1
        if rest == "same" or not rest.startswith("DIVERGED op="):
            continue
        h = byid.get(hid)
        idx = int(rest.split(" ")[1].split("=")[1])
        op = h["ops"][idx][0] if h and idx < len(h["ops"]) else ""
        if op.split(" ")[0] == "TX" and op.split(" ")[1].split(":")[0] in ("param", "dao", "upgrade"):
            bad += 1
            v.violation({"engine": "app", "kind": "governance-depends-on-read-only-traffic"},
                        "with ACL / parameter / validator queries interleaved, governance transaction `%s` of history %s is answered differently: %s"
                        % (op[:120], hid, rest[:300]),
                        {"history": (h["header"] + [o[0] for o in h["ops"][:idx + 1]] + ["E"]) if h else [], "difference": rest})
    cov["interleaved_replays"] = n
    cov["interleaved_replays_with_a_governance_tx_answered_differently"] = bad


def run(a):
    return appcommon.run(a, "C17", set("A"), apporacles.c17, "governance rule violated", extra=gov_under_readonly_traffic)
