"""C14 — engine `ms` (see mscommon.py and coq/Props/C14.v)."""
import mscommon

def run(a):
    return mscommon.run(a, "C14", "store query / proof wrong")
