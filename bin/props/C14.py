"""C14 — engine `ms` (see mscommon.py and coq/Props/C14.v), plus store queries through BaseApp (engine `app`): right after
a restart a query that names no height must be answered exactly as the query that names the last committed height."""
import os
import appcommon, mscommon
import common as c


def through_baseapp(a, v, cov):
    res = c.build(["app"])
    if not res.go_ok:
        return
    out, err = appcommon.run_engine_cached(a, res)
    if err:
        v.broken_obligation(err.split(":")[0], err)
        return
    n = bad = 0
    path = os.path.join(out, "app.qry")
    for l in open(path) if os.path.exists(path) else []:
        n += 1
        if l.rstrip().split(" ")[-1] != "same" and " DIFF " in l:
            bad += 1
            if bad == 1:
                v.violation({"engine": "app", "kind": "default-height-query-after-restart"},
                            "after a restart a store query without a height differs from the query at the last committed height: " + l.strip()[:300],
                            {"line": l.strip()})
    cov["baseapp_default_height_queries_after_restart"] = n
    cov["baseapp_default_height_queries_differing"] = bad


def run(a):
    return mscommon.run(a, "C14", "store query / proof wrong", extra=through_baseapp)
