"""C08 — engine `app` (see appcommon.py / apporacles.py and coq/Props/C08.v), plus the key under which a window position
is stored: engine `codec`, stream KM, against the model's `missed_key` (proved injective in RingTie.v) for indices over the
whole int64 range — a window longer than any history the app engine can run still has one key per position."""
import os
import appcommon, apporacles
import common as c

N = {"quick": 3000, "thorough": 200000}


def window_keys(v, out, hists, cov, a, res):
    kout = os.path.join(c.WORK, "codec-km-%s-%d" % (a.tier, a.seed))
    rc, log = c.run_engine("codec", ["-seed", str(a.seed), "-n", str(N[a.tier]), "-only", "KM"], kout, timeout=1200)
    if rc != 0:
        v.broken_obligation("codec driver (missed-block keys) failed on the implementation", log[-1500:])
        return
    ops = [l.rstrip("\n").split(" ", 1) for l in open(os.path.join(kout, "codec.ops"))]
    impl = dict(l.rstrip("\n").split(" ", 1) for l in open(os.path.join(kout, "codec.impl")))
    model = None
    if res.coq_ok and res.ocaml_ok:
        rc, err = c.run_model("codec", os.path.join(kout, "codec.ops"), os.path.join(kout, "codec.model"))
        if rc != 0:
            v.broken_obligation("extracted model failed to run (missed-block keys)", err[-1500:])
        else:
            model = dict(l.rstrip("\n").split(" ", 1) for l in open(os.path.join(kout, "codec.model")))
    bad = big = 0
    for ident, op in ops:
        _, addr, idx = op.split(" ")
        r = impl.get(ident, "MISSING")
        big += int(idx) >= 65536
        if r.startswith("COLLISION") or r.startswith("key-outside") or r.startswith("PANIC"):
            if not bad:
                v.violation({"engine": "codec", "stream": "KM", "kind": r.split(" ")[0]},
                            "window position %s of validator %s: %s — two positions of one window share a stored bit" % (idx, addr, r),
                            {"op": op, "impl": r, "seed": a.seed, "case": ident})
            bad += 1
        elif model is not None and model.get(ident) != r:
            if not bad:
                v.broken_obligation("correspondence codec/KM: the key of a window position differs from the model's (proved injective) key",
                                    {"op": op, "impl": r, "model": model.get(ident), "seed": a.seed, "case": ident})
            bad += 1
    cov["window_position_keys_compared"] = len(ops) if model is not None else 0
    cov["window_position_keys_at_or_above_65536"] = big


def run(a):
    return appcommon.run(a, "C08", set("GM"), apporacles.c08, "downtime window accounting wrong", extra=window_keys, bins=("app", "codec"))
