"""C08 — engine `app` (see appcommon.py / apporacles.py and coq/Props/C08.v)."""
import appcommon, apporacles

def run(a):
    return appcommon.run(a, "C08", set("GM"), apporacles.c08, "downtime window accounting wrong")
