"""C10 — engine `app` (see appcommon.py / apporacles.py and coq/Props/C10.v)."""
import appcommon, apporacles

def run(a):
    return appcommon.run(a, "C10", set("ASWR"), apporacles.c10, "rewards not exact")
