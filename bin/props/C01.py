"""C01 — replicated execution is deterministic. Two sources, both on the implementation:
(1) engine `app`: every history's ABCI request sequence is replayed on a fresh instance, on an
    instance stopped after a random Commit and reopened from its database, and on an instance
    with CheckTx / Simulate / Query traffic interleaved; every consensus-relevant response
    (codes, data, events, validator updates) and every app hash must equal instance A's;
    and two fresh instances initialised from the history's exported genesis must commit the same hash;
(2) engine `ms`: an uninterrupted twin multistore fed the same writes commits the same hashes.
The theorems (coq/Props/C01.v) cover the one nondeterminism source inside the modelled code:
Go's map iteration order over the substores."""
import os
import appcommon, mscommon
import common as c


def run(a):
    res = c.build(["app", "ms"])
    v = c.Verdict("C01", a.tier, a.seed)
    c.check_build(v, res, "C01")
    ev = c.base_evidence("C01", a.tier, a.seed, res)
    cov = ev["coverage"]
    if not res.go_ok:
        return v.finish(ev)
    out, err = appcommon.run_engine_cached(a, res)
    if err:
        v.broken_obligation(err.split(":")[0], err)
        return v.finish(ev)
    hists = {h["id"]: h for h in appcommon.parse_histories(os.path.join(out, "app.ops"), os.path.join(out, "app.impl"), None)}
    n = same = 0
    samples = []
    for l in open(os.path.join(out, "app.det")):
        hid, variant, rest = l.rstrip("\n").split(" ", 2)
        if variant.endswith("crash"):       # a process killed inside Commit: judged under C13
            continue
        n += 1
        if rest == "same":
            same += 1
            continue
        h = hists.get(hid)
        v.violation({"engine": "app", "kind": "instances-diverged", "variant": variant},
                    "instance `%s` of history %s differs from the reference instance: %s" % (variant, hid, rest[:300]),
                    {"history": (h["header"] + [o[0] for o in h["ops"]] + ["E"]) if h else [], "variant": variant, "difference": rest})
    import xicheck
    xicheck.run("C01", v, out, list(hists.values()), cov)
    if len(samples) < 2 and hists:
        h = hists[sorted(hists)[0]]
        samples.append({"history": h["header"][:3] + [o[0][:160] for o in h["ops"][:10]], "variants": ["fresh", "restart", "interleaved", "consensus-params-restart"]})
    # multistore twin
    mout = os.path.join(c.WORK, "ms-%s-%d" % (a.tier, a.seed))
    with c.Lock("ms-run"):
        rc, log = c.run_engine("ms", ["-seed", str(a.seed), "-n", str(mscommon.N[a.tier])], mout, timeout=3400)
    mh = 0
    if rc != 0:
        v.broken_obligation("ms driver failed", log[-1500:])
    else:
        for h in mscommon.histories(mout, False):
            mh += 1
            bad = mscommon.oracle(h, "C01")
            if bad is not None:
                idx, msg, sig = bad
                v.violation(dict(sig, engine="ms"), "%s (history %s, op %d)" % (msg, h["id"], idx),
                            {"history": [h["header"]] + [o[0] for o in h["ops"][:idx + 1]] + ["E"]})
    cov.update({"evaluations": n + mh, "distinct_nontrivial": n + mh,
                "rule": "every app history x {fresh instance, restart after a random Commit, interleaved CheckTx/Simulate/Query}; every ms history with an uninterrupted twin; "
                        "a case is one (history, variant) pair compared on all responses and app hashes",
                "samples": samples, "traces_validated_against_impl": n, "replays_identical": same, "ms_twin_histories": mh})
    return v.finish(ev)
