"""C03 — engine `app` (see appcommon.py / apporacles.py and coq/Props/C03.v)."""
import appcommon, apporacles

def run(a):
    return appcommon.run(a, "C03", set("A"), apporacles.c03, "ante handler accepted an unauthorised / under-paying / replayed transaction")
