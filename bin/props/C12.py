"""C12 — engine `ms` (see mscommon.py and coq/Props/C12.v)."""
import mscommon

def run(a):
    return mscommon.run(a, "C12", "commit durability / version readability violated")
