"""C19 — signatures bind key and message; stored keys survive export/import. Engine `keys`: real
ed25519 / secp256k1 keys, nested multisig keys and the keybase against the ideal-primitive model
(coq/Crypto/KeysModel.v, theorems in coq/Props/C19.v)."""
import json, os
import common as c

N = {"quick": (4000, 150), "thorough": (150000, 1200)}


def run(a):
    res = c.build(["keys"])
    v = c.Verdict("C19", a.tier, a.seed)
    c.check_build(v, res, "C19")
    ev = c.base_evidence("C19", a.tier, a.seed, res)
    cov = ev["coverage"]
    if not res.go_ok:
        return v.finish(ev)
    out = os.path.join(c.WORK, "keys-%s-%d" % (a.tier, a.seed))
    nv, nk = N[a.tier]
    rc, log = c.run_engine("keys", ["-seed", str(a.seed), "-verifications", str(nv), "-keybase", str(nk)], out, timeout=3400)
    if rc != 0:
        v.broken_obligation("keys driver failed on the implementation", log[-2000:])
        return v.finish(ev)
    ops = [l.rstrip("\n").split(" ", 1) for l in open(os.path.join(out, "keys.ops"))]
    impl = [l.rstrip("\n").split(" ", 1) for l in open(os.path.join(out, "keys.impl"))]
    model = None
    if res.coq_ok and res.ocaml_ok:
        rc, err = c.run_model("keys", os.path.join(out, "keys.ops"), os.path.join(out, "keys.model"))
        if rc != 0:
            v.broken_obligation("extracted model failed to run", err[-2000:])
        else:
            model = [l.rstrip("\n").split(" ", 1) for l in open(os.path.join(out, "keys.model"))]
    distinct = set()
    bad = 0
    samples = []
    for i, (ident, op) in enumerate(ops):
        distinct.add(op)
        if i % 997 == 0 and len(samples) < 5:
            samples.append({"op": op, "impl": impl[i][1]})
        if model is None:
            continue
        if impl[i][1] != model[i][1]:
            bad += 1
            kind = "multisig-verification" if op.startswith("V ") else "keybase"
            v.violation({"engine": "keys", "kind": kind},
                        "`%s`: implementation `%s`, ideal-primitive specification `%s`" % (op[:200], impl[i][1], model[i][1]),
                        {"ops": [o for _, o in ops[:i + 1] if o.startswith("K ")] if kind == "keybase" else [op], "impl": impl[i][1], "spec": model[i][1]})
            if kind == "keybase":
                break
    cov.update({"evaluations": len(ops), "distinct_nontrivial": len(distinct),
                "rule": "nested multisig key trees (depth <= 3, 2-4 keys per node, ed25519 and secp256k1) with honest signatures and "
                        "0-2 mutations (other key, other message, garbage, swapped, dropped, duplicated, flattened, overwritten); one "
                        "keybase history of create/sign/update/delete/export/import with right and wrong passphrases (empty, unicode, long); "
                        "distinct = distinct op text",
                "samples": samples, "traces_validated_against_impl": len(ops) if model is not None else 0, "mismatches": bad,
                "op_distribution": json.load(open(os.path.join(out, "keys.stats.json")))})
    return v.finish(ev)
