"""C09 — engine `app` (see appcommon.py / apporacles.py and coq/Props/C09.v)."""
import appcommon, apporacles

def run(a):
    return appcommon.run(a, "C09", set("VIG"), apporacles.c09, "jail / unjail / tombstone rule violated")
