"""Shared by C15/C16: one `kv` engine run, implementation vs extracted model, per program."""
import json, os
import common as c

N = {"quick": 2500, "thorough": 60000}


def parse_programs(ops_path):
    progs, cur = [], None
    for l in open(ops_path):
        l = l.rstrip("\n")
        if l.startswith("P "):
            cur = {"header": l, "shape": l.split(" ")[3:], "init": [], "ops": []}
            progs.append(cur)
        elif l.startswith("B "):
            cur["init"].append(l)
        elif l == "E":
            cur = None
        elif cur is not None:
            cur["ops"].append(l)
    return progs


def split_obs(line):
    # "<pid>.<idx> <result> g=<n> t=<n>"
    ident, rest = line.split(" ", 1)
    res, g, t = rest.rsplit(" ", 2)
    return ident, res, g, t


def run(a, prop, wants, fields, what, extra=None, extra_bins=()):
    """wants(shape)->bool selects programs; fields: which of result/gas/trace are compared"""
    res = c.build(["kv"] + list(extra_bins))
    v = c.Verdict(prop, a.tier, a.seed)
    c.check_build(v, res, prop)
    ev = c.base_evidence(prop, a.tier, a.seed, res)
    cov = ev["coverage"]
    out = os.path.join(c.WORK, "kv-%s-%d" % (a.tier, a.seed))
    if not res.go_ok:
        return v.finish(ev)
    rc, log = c.run_engine("kv", ["-seed", str(a.seed), "-n", str(N[a.tier])], out)
    if rc != 0:
        v.broken_obligation("kv driver failed on the implementation", log[-2000:])
        return v.finish(ev)
    progs = parse_programs(os.path.join(out, "kv.ops"))
    impl = [l.rstrip("\n") for l in open(os.path.join(out, "kv.impl"))]
    model = None
    if res.coq_ok and res.ocaml_ok:
        rc, err = c.run_model("kv", os.path.join(out, "kv.ops"), os.path.join(out, "kv.model"))
        if rc != 0:
            v.broken_obligation("extracted model failed to run", err[-2000:])
        else:
            model = [l.rstrip("\n") for l in open(os.path.join(out, "kv.model"))]
            if len(model) != len(impl):
                v.broken_obligation("model produced %d observations, implementation %d" % (len(model), len(impl)), "")
                model = None
    # index observations by program
    pos = 0
    nprog = nobs = bad = 0
    distinct = set()
    samples = []
    for pi, p in enumerate(progs):
        n = len(p["ops"])
        sel = wants(p["shape"])
        if sel:
            nprog += 1
            distinct.add((tuple(p["shape"]), tuple(p["init"]), tuple(p["ops"])))
            if len(samples) < 3 and pi % 701 == 0:
                samples.append({"program": [p["header"]] + p["init"] + p["ops"], "impl": impl[pos:pos + n]})
        if sel and model is not None:
            for j in range(n):
                ii, ri, gi, ti = split_obs(impl[pos + j])
                im, rm, gm, tm = split_obs(model[pos + j])
                nobs += 1
                diff = []
                if "result" in fields and ri != rm and not (p["ops"][j] == "T" and "trace" not in fields):
                    diff.append("result")
                if "gas" in fields and gi != gm:
                    diff.append("gas")
                if "trace" in fields and ti != tm:
                    diff.append("trace")
                if diff:
                    bad += 1
                    v.violation({"engine": "kv", "kind": "spec-mismatch", "field": diff[0]},
                                "%s: op %d `%s` of program %s: implementation `%s`, proved model `%s`"
                                % (what, j, p["ops"][j], p["header"], impl[pos + j], model[pos + j]),
                                {"program": [p["header"]] + p["init"] + p["ops"][:j + 1] + ["E"],
                                 "impl": impl[pos + j], "model": model[pos + j], "differs_in": diff})
                    break
        pos += n
    cov.update({
        "evaluations": nprog, "distinct_nontrivial": len(distinct),
        "rule": "seeded programs of 5-45 ops (Get/Has/Set/Delete/iterate-all/stepwise iterator/Write/direct gas) on random "
                "stackings of cachekv/prefix/gaskv/tracekv over MemDB, keys over a 6-letter alphabet incl. 0x00/0xFF so that "
                "collisions, prefix-adjacent keys and empty ranges are frequent; distinct = distinct (stack, initial content, op list)",
        "samples": samples, "traces_validated_against_impl": nprog if model is not None else 0,
        "observations_compared": nobs, "mismatching_programs": bad,
        "op_distribution": json.load(open(os.path.join(out, "kv.stats.json"))),
    })
    if extra is not None:
        extra(a, v, res, cov)
    return v.finish(ev)
