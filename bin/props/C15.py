"""C15 — cache-wrapped stores are an atomically applied overlay."""
import kvcommon

def run(a):
    return kvcommon.run(a, "C15", lambda shape: any(s == "cache" for s in shape), {"result"},
                        "cache store result differs from the overlay semantics")
