"""C15 — cache-wrapped stores are an atomically applied overlay. Engine `kv` (sequential programs vs the proved
model) plus engine `lin`: schedule-directed concurrent calls on one wrapper, each scenario explained by one of the
two sequential orders on the model."""
import json, os
import common as c
import kvcommon

NLIN = {"quick": 250, "thorough": 4000}


def lin(a, v, res, cov):
    out = os.path.join(c.WORK, "lin-%s-%d" % (a.tier, a.seed))
    rc, log = c.run_engine("lin", ["-seed", str(a.seed), "-n", str(NLIN[a.tier])], out, timeout=1800)
    if rc != 0:
        v.broken_obligation("lin driver failed on the implementation", log[-2000:])
        return
    impl = dict(l.rstrip("\n").split(" ", 1) for l in open(os.path.join(out, "lin.impl")))
    stats = json.load(open(os.path.join(out, "lin.stats.json")))
    cov["concurrent_scenarios"] = {"run": len(impl), "distribution": stats, "explained_by_a_sequential_order": 0,
                                   "rule": "reader (Get/Has of a key not cached yet) held open inside the parent read while a writer "
                                           "(Set/Delete of the same key) is started on the same wrapper; outcome (reader result, later "
                                           "Get/Has, iteration, parent after Write) must equal the model's outcome for reader-then-writer "
                                           "or writer-then-reader"}
    if not (res.coq_ok and res.ocaml_ok):
        return
    rc, err = c.run_model("kv", os.path.join(out, "lin.ops"), os.path.join(out, "lin.model"))
    if rc != 0:
        v.broken_obligation("extracted model failed to run on the sequential explanations", err[-2000:])
        return
    # model observations per program id
    obs = {}
    for l in open(os.path.join(out, "lin.model")):
        ident, r, g, t = kvcommon.split_obs(l.rstrip("\n"))
        pid, idx = ident.rsplit(".", 1)
        obs.setdefault(pid, []).append(r)
    progs = {}
    cur = None
    for l in open(os.path.join(out, "lin.ops")):
        l = l.rstrip("\n")
        if l.startswith("P "):
            cur = l.split(" ")[1]
            progs[cur] = []
        elif l.startswith("# "):
            pass
        elif cur is not None and not l.startswith("B ") and l != "E":
            progs[cur].append(l)
    ok = 0
    for sc, line in impl.items():
        allowed = []
        for ord_ in ("a", "b"):
            pid = sc + ord_
            o, ops = obs.get(pid, []), progs.get(pid, [])
            if len(o) != len(ops) or len(o) < 7:
                continue
            n = len(o)
            ri = n - 7 if ord_ == "a" else n - 6         # index of the reader's own result
            allowed.append("r1=%s|%s|%s|%s|%s" % (o[ri], o[n - 5], o[n - 4], o[n - 3], o[n - 1]))
        if line in allowed:
            ok += 1
        else:
            v.violation({"engine": "lin", "kind": "not-linearizable"},
                        "concurrent calls on one cachekv wrapper did not take effect atomically: outcome `%s` is explained by neither "
                        "sequential order (%s)" % (line, " / ".join(allowed)),
                        {"scenario": sc, "sequential_order_a": progs.get(sc + "a"), "sequential_order_b": progs.get(sc + "b"),
                         "impl": line, "allowed": allowed, "seed": a.seed})
    cov["concurrent_scenarios"]["explained_by_a_sequential_order"] = ok


def run(a):
    return kvcommon.run(a, "C15", lambda shape: any(s == "cache" for s in shape), {"result"},
                        "cache store result differs from the overlay semantics", extra=lin, extra_bins=("lin",))
