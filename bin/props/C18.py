"""C18 — arithmetic. Engine `num`: model == implementation on every case (correspondence),
implementation == exact specification (property); the proved theorems are in coq/Props/C18.v."""
import json, os
import common as c

N = {"quick": 20000, "thorough": 600000}
OPS_SPEC_CAN_DIFFER = {"dquo", "dquoru", "dmul", "dquot"}   # ops for which modelrun prints a separate spec column


JSON_OPS = {"ijson", "ujson"}     # text decoders belong to C20


def run(a, prop="C18", only_ops=None, exclude_ops=JSON_OPS):
    res = c.build(["num"])
    v = c.Verdict(prop, a.tier, a.seed)
    c.check_build(v, res, prop)
    ev = c.base_evidence(prop, a.tier, a.seed, res)
    out = os.path.join(c.WORK, "num-%s-%d" % (a.tier, a.seed))
    cov = ev["coverage"]
    if res.go_ok:
        rc, log = c.run_engine("num", ["-seed", str(a.seed), "-n", str(N[a.tier])], out)
        if rc != 0:
            v.broken_obligation("num driver failed on the implementation", log[-2000:])
        else:
            compare(v, res, out, cov, only_ops, exclude_ops)
    return v.finish(ev)


def compare(v, res, out, cov, only_ops, exclude_ops):
    ops = [l.rstrip("\n").split(" ") for l in open(os.path.join(out, "num.ops"))]
    impl = [l.rstrip("\n").split(" ", 1) for l in open(os.path.join(out, "num.impl"))]
    have_model = res.coq_ok and res.ocaml_ok
    model = None
    if have_model:
        rc, err = c.run_model("num", os.path.join(out, "num.ops"), os.path.join(out, "num.model"))
        if rc != 0:
            v.broken_obligation("extracted model failed to run", err[-2000:])
        else:
            model = [l.rstrip("\n").split(" ") for l in open(os.path.join(out, "num.model"))]
    n = len(ops)
    distinct = set()
    corr_bad = spec_bad = 0
    samples = []
    for i in range(n):
        op = ops[i][1]
        if (only_ops is not None and op not in only_ops) or op in exclude_ops:
            continue
        args = ops[i][2:]
        r_impl = impl[i][1]
        distinct.add((op, tuple(args)))
        if len(samples) < 6 and i % 997 == 0:
            samples.append({"op": op, "args": args, "impl": r_impl})
        if r_impl.startswith("M!"):
            v.violation({"engine": "num", "op": op, "kind": "operand-mutated"},
                        "%s mutated a valid operand" % op, {"op": op, "args": args, "impl": r_impl})
            continue
        if model is None:
            continue
        r_model, r_spec = model[i][1], model[i][2]
        if r_spec == "=":
            r_spec = r_model
        if r_impl != r_spec:
            spec_bad += 1
            kind = "spec-mismatch-impl-equals-model" if r_impl == r_model else "spec-mismatch"
            v.violation({"engine": "num", "op": op, "kind": kind},
                        "%s%s: implementation %s, exact arithmetic %s" % (op, tuple(args), r_impl, r_spec),
                        {"op": op, "args": args, "impl": r_impl, "spec": r_spec, "model": r_model})
        elif r_impl != r_model:
            corr_bad += 1
            v.broken_obligation("correspondence num/%s" % op,
                                {"op": op, "args": args, "impl": r_impl, "model": r_model,
                                 "note": "implementation agrees with the exact specification on this input; the model is stale"})
    cov.update({
        "evaluations": len(distinct) and sum(1 for o in ops if (only_ops is None or o[1] in only_ops) and o[1] not in exclude_ops), "distinct_nontrivial": len(distinct),
        "rule": "seeded structured operands (bounds +-1, ties +-1, powers of 2/10, double-rounding hazards, related coin sets); "
                "distinct = distinct (op, operands); every case is non-trivial in that it is compared on model, spec and implementation",
        "samples": samples, "traces_validated_against_impl": n if model is not None else 0,
        "correspondence_mismatches": corr_bad, "spec_mismatches": spec_bad,
        "op_distribution": json.load(open(os.path.join(out, "num.stats.json"))),
    })
