"""C18 — arithmetic. Engine `num`: model == implementation on every case (correspondence),
implementation == exact specification (property); the proved theorems are in coq/Props/C18.v."""
import json, os
import common as c

N = {"quick": 20000, "thorough": 600000}
OPS_SPEC_CAN_DIFFER = {"dquo", "dquoru", "dmul", "dquot"}   # ops for which modelrun prints a separate spec column


JSON_OPS = {"ijson", "ujson"}     # text decoders belong to C20


NTEXT = {"quick": 4000, "thorough": 200000}


def dec_text(a, v, res, cov):
    """the text form of a Dec (String, NewDecFromStr: how every decimal leaves and enters the arithmetic) against the model's
    dec_to_text / text_to_dec - engine `codec`, streams DS and DP only"""
    out = os.path.join(c.WORK, "codec-ds-%s-%d" % (a.tier, a.seed))
    rc, log = c.run_engine("codec", ["-seed", str(a.seed), "-n", str(NTEXT[a.tier]), "-only", "DS"], out, timeout=1200)
    if rc != 0:
        v.broken_obligation("codec driver (decimal text) failed on the implementation", log[-1500:])
        return
    ops = [l.rstrip("\n").split(" ", 1) for l in open(os.path.join(out, "codec.ops"))]
    impl = dict(l.rstrip("\n").split(" ", 1) for l in open(os.path.join(out, "codec.impl")))
    if not (res.coq_ok and res.ocaml_ok):
        return
    rc, err = c.run_model("codec", os.path.join(out, "codec.ops"), os.path.join(out, "codec.model"))
    if rc != 0:
        v.broken_obligation("extracted model failed to run (decimal text)", err[-1500:])
        return
    model = dict(l.rstrip("\n").split(" ", 1) for l in open(os.path.join(out, "codec.model")))
    bad = 0
    for ident, op in ops:
        r, m = impl.get(ident, "MISSING"), model.get(ident, "MISSING")
        if r != m:
            bad += 1
            if bad <= 3:
                def txt(x):
                    try:
                        return bytes.fromhex(x).decode("utf-8", "replace")
                    except ValueError:
                        return x
                kind, arg = op.split(" ", 1)
                what = ("Dec with raw value %s prints as `%s`, its exact decimal expansion is `%s`" % (arg, txt(r), txt(m))) if kind == "DS" else \
                       ("the text `%s` is read as %s, exactly it denotes %s" % (txt(arg), r, m))
                v.violation({"engine": "codec", "stream": kind, "kind": "decimal-text"}, what, {"op": op, "impl": r, "spec": m, "seed": a.seed, "case": ident})
    cov["decimal_text_cases"] = len(ops)
    cov["decimal_text_mismatches"] = bad


def run(a, prop="C18", only_ops=None, exclude_ops=JSON_OPS):
    res = c.build(["num", "codec"] if prop == "C18" else ["num"])
    v = c.Verdict(prop, a.tier, a.seed)
    c.check_build(v, res, prop)
    ev = c.base_evidence(prop, a.tier, a.seed, res)
    out = os.path.join(c.WORK, "num-%s-%d" % (a.tier, a.seed))
    cov = ev["coverage"]
    if res.go_ok:
        rc, log = c.run_engine("num", ["-seed", str(a.seed), "-n", str(N[a.tier])], out)
        if rc != 0:
            v.broken_obligation("num driver failed on the implementation", log[-2000:])
        else:
            compare(v, res, out, cov, only_ops, exclude_ops)
        if prop == "C18":
            dec_text(a, v, res, cov)
    return v.finish(ev)


def compare(v, res, out, cov, only_ops, exclude_ops):
    ops = [l.rstrip("\n").split(" ") for l in open(os.path.join(out, "num.ops"))]
    impl = [l.rstrip("\n").split(" ", 1) for l in open(os.path.join(out, "num.impl"))]
    have_model = res.coq_ok and res.ocaml_ok
    model = None
    if have_model:
        rc, err = c.run_model("num", os.path.join(out, "num.ops"), os.path.join(out, "num.model"))
        if rc != 0:
            v.broken_obligation("extracted model failed to run", err[-2000:])
        else:
            model = [l.rstrip("\n").split(" ") for l in open(os.path.join(out, "num.model"))]
    n = len(ops)
    distinct = set()
    corr_bad = spec_bad = 0
    samples = []
    for i in range(n):
        op = ops[i][1]
        if (only_ops is not None and op not in only_ops) or op in exclude_ops:
            continue
        args = ops[i][2:]
        r_impl = impl[i][1]
        distinct.add((op, tuple(args)))
        if len(samples) < 6 and i % 997 == 0:
            samples.append({"op": op, "args": args, "impl": r_impl})
        if r_impl.startswith("M!"):
            v.violation({"engine": "num", "op": op, "kind": "operand-mutated"},
                        "%s mutated a valid operand" % op, {"op": op, "args": args, "impl": r_impl})
            continue
        if model is None:
            continue
        r_model, r_spec = model[i][1], model[i][2]
        if r_spec == "=":
            r_spec = r_model
        if r_impl != r_spec:
            spec_bad += 1
            kind = "spec-mismatch-impl-equals-model" if r_impl == r_model else "spec-mismatch"
            v.violation({"engine": "num", "op": op, "kind": kind},
                        "%s%s: implementation %s, exact arithmetic %s" % (op, tuple(args), r_impl, r_spec),
                        {"op": op, "args": args, "impl": r_impl, "spec": r_spec, "model": r_model})
        elif r_impl != r_model:
            corr_bad += 1
            v.broken_obligation("correspondence num/%s" % op,
                                {"op": op, "args": args, "impl": r_impl, "model": r_model,
                                 "note": "implementation agrees with the exact specification on this input; the model is stale"})
    cov.update({
        "evaluations": len(distinct) and sum(1 for o in ops if (only_ops is None or o[1] in only_ops) and o[1] not in exclude_ops), "distinct_nontrivial": len(distinct),
        "rule": "seeded structured operands (bounds +-1, ties +-1, powers of 2/10, double-rounding hazards, related coin sets); "
                "distinct = distinct (op, operands); every case is non-trivial in that it is compared on model, spec and implementation",
        "samples": samples, "traces_validated_against_impl": n if model is not None else 0,
        "correspondence_mismatches": corr_bad, "spec_mismatches": spec_bad,
        "op_distribution": json.load(open(os.path.join(out, "num.stats.json"))),
    })
