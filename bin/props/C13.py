"""C13 — engine `ms` (see mscommon.py and coq/Props/C13.v), plus the whole application (engine `app`): every history is
replayed on an instance whose process dies at a random database write of a random Commit (never the first one - finding
F18 - and with pruning policies that keep the previous version until the new one is flushed - finding F8); the instance
is reopened from its database, must come up at the complete previous or the complete new height, and the re-executed
block must return the responses and the app hash of the uninterrupted run - without and with genesis consensus
parameters (binding block gas limit, allowed validator key types), which BaseApp persists and restores itself."""
import os
import appcommon, mscommon
import common as c


def through_baseapp(a, v, cov):
    res = c.build(["app"])
    if not res.go_ok:
        return
    out, err = appcommon.run_engine_cached(a, res)
    if err:
        v.broken_obligation(err.split(":")[0], err)
        return
    hists = {h["id"]: h for h in appcommon.parse_histories(os.path.join(out, "app.ops"), os.path.join(out, "app.impl"), None)}
    n = bad = 0
    for l in open(os.path.join(out, "app.det")):
        hid, variant, rest = l.rstrip("\n").split(" ", 2)
        if not variant.endswith("crash"):
            continue
        n += 1
        if rest == "same":
            continue
        bad += 1
        if bad > 3:
            continue
        h = hists.get(hid)
        kind = "reopen-fails-after-crash" if "crash-reopen-failed" in rest else ("mixture" if "reopened-at-height" in rest else "replay-differs")
        v.violation({"engine": "app", "kind": kind, "variant": variant},
                    "history %s, process killed inside a Commit and reopened (%s): %s" % (hid, variant, rest[:300]),
                    {"history": (h["header"] + [o[0] for o in h["ops"]] + ["E"]) if h else [], "variant": variant, "difference": rest})
    cov["application_histories_replayed_with_a_crash_inside_commit"] = n
    cov["application_crash_replays_differing"] = bad
    try:
        import json
        st = json.load(open(os.path.join(out, "app.stats.json")))
        cov["application_crash_outcomes"] = {k: x for k, x in st.items() if k.startswith("det/crash/")}
    except Exception:
        pass


def run(a):
    return mscommon.run(a, "C13", "crash during Commit corrupts the store", extra=through_baseapp)
