"""C13 — engine `ms` (see mscommon.py and coq/Props/C13.v)."""
import mscommon

def run(a):
    return mscommon.run(a, "C13", "crash during Commit corrupts the store")
