"""Shared by C12/C13/C14: one `ms` engine run (rootmulti+iavl+transient over a crash-instrumented DB),
correspondence with the extracted L2 model and property oracles on the implementation's own output
against a shadow copy of what was committed."""
import hashlib, json, os, re
import common as c

N = {"quick": 400, "thorough": 40000}
OPK = ("S", "D", "T", "C", "X", "R", "L", "Q", "P", "V", "M", "K")


def parse_contents(s):
    """'acc:{k=v,..};main:{..} tr=0' -> ({store:{k:v}}, tr)"""
    m = re.match(r"(.*) tr=(\d+)$", s)
    body, tr = m.group(1), int(m.group(2))
    d = {}
    for part in body.split(";"):
        name, rest = part.split(":", 1)
        kvs = {}
        for it in rest.strip("{}").split(","):
            if it:
                k, v = it.split("=")
                kvs[k] = v
        d[name] = kvs
    return d, tr


def retained(v, n, kr, ke):
    """version v (1..n) is on disk after n commits under (keepRecent, keepEvery)"""
    return v >= n - kr or (ke != 0 and v % ke == 0)


def norm(op, res):
    res = re.sub(r" proof=\S+", "", res)
    res = re.sub(r" twin=\w+", "", res)      # equality with the uninterrupted twin is C13's oracle
    if op.startswith("Q ") and res in ("err", "noversion"):
        return "nodata"
    return res


def histories(out, with_model):
    impl = {}
    for l in open(os.path.join(out, "ms.impl")):
        i, r = l.rstrip("\n").split(" ", 1)
        impl[i] = r
    model = {}
    if with_model:
        for l in open(os.path.join(out, "ms.model")):
            i, r = l.rstrip("\n").split(" ", 1)
            model[i] = r
    hs, cur = [], None
    for l in open(os.path.join(out, "ms.ops")):
        l = l.rstrip("\n")
        if l.startswith("H "):
            _, hid, kr, ke, names = l.split(" ")
            cur = {"id": hid, "kr": int(kr), "ke": int(ke), "names": names.split(","), "header": l, "ops": []}
            hs.append(cur)
        elif l == "E":
            cur = None
        elif cur is not None and l.split(" ")[0] in OPK:
            ident = "%s.%d" % (cur["id"], len(cur["ops"]))
            cur["ops"].append((l, impl.get(ident), model.get(ident)))
    return hs


def oracle(h, prop):
    """returns (idx, message, signature) for the first violation of `prop` in this history"""
    kr, ke = h["kr"], h["ke"]
    work = {n: {} for n in h["names"]}
    committed = {0: {n: {} for n in h["names"]}}
    cur = 0          # version the instance is at
    top = 0          # newest version on disk
    pending = []
    crash_at_zero = False     # a Commit was interrupted while the root version was still 0
    policy_changed = False
    disk = set()              # versions every substore still has, by the pruning rule as documented
    late = set()              # stores mounted after the first commits: IAVL numbers THEIR versions from 1, so a height
                              # addressed to them is off by the mounting height (observation F28; the model, which keeps
                              # one version list per substore, mirrors it and is compared as usual)

    def committed_version(ver):
        disk.add(ver)
        prev = ver - 1
        if kr < prev:
            rel = prev - kr
            if ke == 0 or rel % ke != 0:
                disk.discard(rel)
    for i, (op, res, _) in enumerate(h["ops"]):
        if res is None:
            break
        t = op.split(" ")
        k = t[0]
        if k == "M":
            late.add(t[1])
            if res == "err" and prop == "C12":
                return i, "reopening the database with one more store mounted fails", {"kind": "reopen-fails"}
            continue
        if late:
            # after a late mount only the plain failures are judged here (a reopen or a commit that fails); versions,
            # contents and hashes of such a history follow the per-substore numbering and are compared with the model
            if k in ("R",) and res == "err" and prop == "C12":
                return i, "reopening the database fails after a store was mounted late", {"kind": "reopen-fails"}
            if k == "C" and not res.startswith("ok ") and prop == "C12":
                return i, "Commit failed: " + res[:80], {"kind": "commit-failed"}
            if k == "X" and res.startswith("panic") and prop in ("C12", "C13"):
                return i, "Commit panics: " + res[:120], {"kind": "commit-failed"}
            continue
        if k == "P":
            policy_changed = True     # the closed-form retained set below assumes one policy per history
            kr, ke = int(t[1]), int(t[2])
        elif k == "S":
            work[t[1]][t[2]] = t[3]
            pending.append(t)
        elif k == "D":
            work[t[1]].pop(t[2], None)
            pending.append(t)
        elif k == "C":
            if not res.startswith("ok "):
                if prop == "C12":
                    return i, "Commit failed: " + res[:80], {"kind": "commit-failed"}
                break
            m = re.match(r"ok ver=(\d+) twin=(\w+) info=(\w+) (.*)$", res)
            ver, twin, info = int(m.group(1)), m.group(2), m.group(3)
            conts, tr = parse_contents(m.group(4))
            if prop == "C12":
                if ver != cur + 1:
                    return i, "Commit went from version %d to %d" % (cur, ver), {"kind": "version-step"}
                if info != "true":
                    return i, "LastCommitID does not report the hash Commit returned", {"kind": "hash-not-reported"}
                if tr != 0:
                    return i, "transient store holds %d entries after Commit" % tr, {"kind": "transient-not-empty"}
                if conts != work:
                    return i, "content after Commit differs from what was written", {"kind": "content-wrong"}
            if prop == "C01" and twin != "true":
                return i, "two instances fed the same writes committed different hashes", {"kind": "hash-diverged"}
            if prop == "C13" and twin != "true":
                return i, "after an interrupted commit the instance commits a different hash than an uninterrupted run", \
                    {"kind": "replay-hash", "after_crash_at_version_zero": crash_at_zero}
            cur = ver
            top = max(top, ver)
            committed_version(ver)
            committed[ver] = {n: dict(d) for n, d in work.items()}
            pending = []
        elif k == "X":
            if prop == "C01":
                break          # interrupted commits are C13's subject
            old = cur
            new_state = {n: dict(d) for n, d in work.items()}
            if res.startswith("panic"):
                if prop in ("C12", "C13"):
                    return i, "Commit panics: " + res[:120], {"kind": "commit-failed"}
                break
            if res.startswith("nocrash"):
                m = re.match(r"nocrash ver=(\d+) twin=(\w+) (.*)$", res)
                cur = int(m.group(1))
                top = max(top, cur)
                committed_version(cur)
                committed[cur] = new_state
                pending = []
                continue
            if res == "crash reopen=err":
                if prop == "C13":
                    return i, "after a crash during Commit (%s write units reached the disk: %s) the store cannot be reopened" % (t[1], t[2] if len(t) > 2 else ""), \
                        {"kind": "reopen-fails-after-crash", "keep_recent": kr, "keep_every_is_one": ke == 1}
                break
            m = re.match(r"crash reopen=ok ver=(\d+) old=(\d+) (.*?) tr=(\d+)(.*)$", res)
            ver = int(m.group(1))
            if old == 0 and len(t) > 2 and t[2]:
                crash_at_zero = True
                if prop != "C13":
                    # finding F18 (reported under C13): substores are now one version ahead of the root;
                    # what follows in this history is its consequence, not a separate violation
                    break
            conts, _ = parse_contents(m.group(3) + " tr=" + m.group(4))
            tail = m.group(5)
            if prop == "C13":
                if ver == old and conts != committed[old]:
                    return i, "reopened at the old version %d with content that is not the old content" % old, {"kind": "mixture", "old_version_is_zero": old == 0}
                if ver == old + 1 and conts != new_state:
                    return i, "reopened at the new version %d with content that is not the new content" % ver, {"kind": "mixture"}
                if ver not in (old, old + 1):
                    return i, "reopened at version %d, neither old %d nor new" % (ver, old), {"kind": "mixture"}
                if "recommit=panic" in tail:
                    return i, "re-executing the interrupted block panics", {"kind": "replay-fails"}
                if "twin=False" in tail or "twin=false" in tail:
                    return i, "re-executing the interrupted block gives a different hash than an uninterrupted run", \
                        {"kind": "replay-hash", "after_crash_at_version_zero": crash_at_zero}
            if "recommit=panic" in tail:
                break
            cur = old + 1
            top = max(top, cur)
            committed_version(cur)
            committed[cur] = new_state
            work = {n: dict(d) for n, d in new_state.items()}
            pending = []
        elif k in ("R", "M"):
            if k == "M":        # a store mounted late: it starts empty at every version committed so far
                late.add(t[1])
                work[t[1]] = {}
                for cv in committed.values():
                    cv.setdefault(t[1], {})
            if res == "err":
                if prop == "C12":
                    return i, "reopening the database fails", {"kind": "reopen-fails"}
                break
            m = re.match(r"ok ver=(\d+) info=(\w+) (.*)$", res)
            ver, info = int(m.group(1)), m.group(2)
            conts, tr = parse_contents(m.group(3))
            if prop == "C12":
                if ver != cur or conts != committed[cur]:
                    return i, "reopened store shows version %d / content different from the last commit (version %d)" % (ver, cur), {"kind": "not-durable"}
                if info != "true":
                    return i, "reopened store reports a different hash than Commit returned", {"kind": "hash-not-reported"}
            work = {n: dict(d) for n, d in committed[cur].items()}
            pending = []
        elif k == "L":
            v = int(t[1])
            should = v == 0 or v in disk
            if res == "err":
                if prop == "C12" and should and v != 0:
                    return i, "version %d should be retained under keepRecent=%d keepEvery=%d after %d commits but cannot be loaded" % (v, kr, ke, top), {"kind": "retained-unreadable"}
            else:
                m = re.match(r"ok ver=(\d+) info=(\w+) (.*)$", res)
                conts, tr = parse_contents(m.group(3))
                if prop == "C12":
                    if v != 0 and conts != committed.get(v):
                        return i, "LoadVersion(%d) returned content that was not committed at that version" % v, {"kind": "wrong-data"}
                    if v != 0 and not should:
                        return i, "version %d should have been pruned under keepRecent=%d keepEvery=%d after %d commits but is readable" % (v, kr, ke, top), {"kind": "pruned-readable"}
        elif k == "Q":
            store, key, hgt, prove = t[1], t[2], int(t[3]), t[4] == "true"
            if prop not in ("C14", "C12") or store in late:
                continue
            if prop == "C12":
                # C12's share: a version the pruning rule has released (or that does not exist yet) is not readable
                h0 = hgt if hgt != 0 else (cur - 1 if (cur - 1) in disk else cur)
                b0 = res.split(" ")[0]
                if h0 not in disk and not policy_changed and h0 > 0 and b0 not in ("noversion", "err") and not b0.startswith("panic"):
                    return i, "query at height %d, which should have been pruned (or does not exist yet), answers `%s`" % (h0, b0), {"kind": "pruned-readable"}
                continue
            if res.startswith("panic"):
                return i, "store query panics: %s" % res[6:70], {"kind": "query-panic", "key_all_ff": set(key) <= set("f"), "prove": prove}
            if hgt == 0:
                # "the default height": the store answers for latest-1 when it still has it, else for latest (iavl getHeight)
                hgt = cur - 1 if (cur - 1) in disk else cur
            have = hgt in disk
            body = res.split(" ")[0]
            if have:
                exp = committed[hgt][store].get(key)
                if exp is None and body == "err" and prove and not committed[hgt][store]:
                    return i, "no absence proof can be produced for a key of an EMPTY store (height %d): the query fails" % hgt, \
                        {"kind": "no-absence-proof-for-empty-store"}
                if exp is None and body not in ("none",):
                    return i, "query at height %d for an absent key returned %s" % (hgt, body), {"kind": "wrong-value"}
                if exp is not None and body != "val=" + exp:
                    return i, "query at height %d returned %s, committed value is %s" % (hgt, body, exp), {"kind": "wrong-value"}
                if prove:
                    pm = re.search(r"proof=(\S+)", res)
                    if pm is None or pm.group(1) == "missing":
                        return i, "no proof returned for a retained height", {"kind": "proof-missing"}
                    ok_, wrong = re.match(r"ok:(\d+),wrong:(\d+)", pm.group(1)).groups()
                    if int(ok_) < 1:
                        ks = sorted(bytes.fromhex(kk) for kk in committed[hgt][store])
                        qk = bytes.fromhex(key)
                        cause = "other"
                        if any(len(x) < len(qk) and qk.startswith(x) for x in ks):
                            cause = "query-key-extends-an-existing-key"
                        elif any(len(x) > len(qk) and x.startswith(qk) for x in ks):
                            cause = "existing-keys-extend-the-query-key"
                        elif any(0xff in x for x in ks + [qk]):
                            cause = "0xff-byte-in-store-or-key"
                        return i, "%s proof does not verify against the app hash of height %d" % ("absence" if exp is None else "existence", hgt), \
                            {"kind": "proof-invalid", "absence": exp is None, "cause": cause}
                    if int(wrong) > 0:
                        return i, "proof for height %d verifies against another height's app hash" % hgt, {"kind": "proof-not-binding"}
            else:
                if body.startswith("val="):
                    return i, "query for the pruned/future height %d returned data" % hgt, {"kind": "data-from-other-height"}
                if body == "none" and not policy_changed and hgt > top:
                    return i, "query for the future height %d answers 'no such key' instead of 'no such version'" % hgt, {"kind": "absent-instead-of-no-version"}
                if "proof=ok" in res:
                    return i, "query for the pruned/future height %d returned a proof" % hgt, {"kind": "data-from-other-height"}
        elif k == "V":
            # CacheMultiStoreWithVersion(ver): the committed content of that version, whatever is pending in the working trees
            store, key, ver = t[1], t[2], int(t[3])
            if prop not in ("C12", "C14") or late:
                continue
            body = res.split(" ")[0]
            if body == "panic":
                return i, "versioned read panics: %s" % res[6:80], {"kind": "versioned-read-panic"}
            if ver in disk and ver in committed:
                exp = committed[ver][store].get(key)
                if body.startswith("val=") and body != "val=" + str(exp):
                    return i, "read at version %d returned %s, committed value is %s (%d writes pending in the working trees)" % (ver, body, exp, len(pending)), \
                        {"kind": "versioned-read-wrong-value", "pending_writes": len(pending) > 0}
                if body == "none" and exp is not None:
                    return i, "read at version %d found nothing, committed value is %s (%d writes pending)" % (ver, exp, len(pending)), \
                        {"kind": "versioned-read-wrong-value", "pending_writes": len(pending) > 0}
                if body == "noversion" and not policy_changed:
                    return i, "version %d should be retained but cannot be read" % ver, {"kind": "retained-unreadable"}
            elif body.startswith("val=") and not policy_changed and ver > top:
                return i, "read at the future version %d returned data" % ver, {"kind": "data-from-other-height"}
    return None


def run(a, prop, what, extra=None):
    res = c.build(["ms"])
    v = c.Verdict(prop, a.tier, a.seed)
    c.check_build(v, res, prop)
    ev = c.base_evidence(prop, a.tier, a.seed, res)
    cov = ev["coverage"]
    if not res.go_ok:
        return v.finish(ev)
    out = os.path.join(c.WORK, "ms-%s-%d" % (a.tier, a.seed))
    with c.Lock("ms-run"):
        rc, log = c.run_engine("ms", ["-seed", str(a.seed), "-n", str(N[a.tier])], out, timeout=3400)
        if rc != 0:
            v.broken_obligation("ms driver failed on the implementation", log[-2000:])
            return v.finish(ev)
        with_model = False
        if res.coq_ok and res.ocaml_ok:
            rc, err = c.run_model("ms", os.path.join(out, "ms.ops"), os.path.join(out, "ms.model"))
            if rc != 0:
                v.broken_obligation("extracted model failed to run", err[-2000:])
            else:
                with_model = True
        hs = histories(out, with_model)
    nops = mism = flagged = 0
    distinct = set()
    samples = []
    for hi, h in enumerate(hs):
        distinct.add(hashlib.sha1((h["header"] + "\n".join(o[0] for o in h["ops"])).encode()).hexdigest())
        if hi % 131 == 0 and len(samples) < 2:
            samples.append({"history": [h["header"]] + [o[0] for o in h["ops"][:15]], "impl": [o[1][:120] for o in h["ops"][:4] if o[1]]})
        try:
            bad = oracle(h, prop)
        except Exception as e:      # an observation the oracle cannot read is a broken check, never a silent pass or a crash
            import traceback
            v.broken_obligation("the %s oracle could not interpret the implementation's observations of history %s" % (prop, h["id"]),
                                traceback.format_exc()[-1500:])
            bad = None
        if bad is not None:
            idx, msg, sig = bad
            flagged += 1
            v.violation(dict(sig, engine="ms"), "%s: %s (history %s `%s`, op %d `%s`)" % (what, msg, h["id"], h["header"], idx, h["ops"][idx][0][:100]),
                        {"history": [h["header"]] + [o[0] for o in h["ops"][:idx + 1]] + ["E"], "impl": h["ops"][idx][1]})
        if not with_model:
            continue
        for j, (op, io, mo) in enumerate(h["ops"]):
            nops += 1
            if io is None or mo is None:
                break
            if prop != "C13" and op.startswith("X ") and " old=0 " in io and len(op.split(" ")) > 2 and op.split(" ")[2]:
                break      # finding F18: from here on the substores are one version ahead (reported under C13)
            if op.startswith("Q ") and io.startswith("panic"):
                continue
            if op.startswith("Q ") and op.endswith(" true") and io.split(" ")[0] == "err" and mo == "none":
                continue   # no absence proof for an empty store (finding F20, owned by the oracle)
            if not relevant(prop, op):
                if norm(op, io) != norm(op, mo) and op.split(" ")[0] in ("C", "X", "R"):
                    break   # the histories diverged on an op another property owns
                continue
            if norm(op, io) != norm(op, mo):
                mism += 1
                if bad is None:
                    v.broken_obligation("correspondence ms/%s: implementation and proved model differ at `%s`" % (prop, op[:80]),
                                        {"history": [h["header"]] + [o[0] for o in h["ops"][:j + 1]] + ["E"], "impl": io[:400], "model": mo[:400]})
                break
    if extra is not None:
        extra(a, v, cov)
    stats = json.load(open(os.path.join(out, "ms.stats.json")))
    cov.update({
        "evaluations": len(hs), "distinct_nontrivial": len(distinct),
        "rule": "seeded histories of writes/deletes over 1-4 IAVL substores + a transient store, commits, reopen, LoadVersion of every kind of "
                "version, queries with/without proof at retained/pruned/future heights, and commits interrupted after k write units "
                "(every k), under the shipped and random (keepRecent, keepEvery) options; distinct = distinct histories",
        "samples": samples, "traces_validated_against_impl": len(hs) if with_model else 0,
        "ops_compared": nops, "histories_with_model_mismatch": mism, "histories_flagged_by_oracle": flagged,
        "op_distribution": {k: v_ for k, v_ in stats.items()},
    })
    return v.finish(ev)


def relevant(prop, op):
    k = op.split(" ")[0]
    return {"C12": k in ("C", "R", "L", "S", "D", "T", "P", "Q", "V", "M", "K"), "C13": k in ("X",), "C14": k in ("Q", "V"), "C01": k in ("C", "X")}[prop]
