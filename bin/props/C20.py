"""C20 — encodings round-trip, sign bytes are canonical, malformed input is refused.
Engine `codec` (amino binary/JSON round trips of every wire and storage type, sign bytes, hostile
bytes through every decoder and through CheckTx/DeliverTx, key builders, uvarint frames, canonical
JSON) plus the Int/Uint text decoders of engine `num`; byte-level model coq/Codec/CodecModel.v,
theorems coq/Props/C20.v."""
import json, os
import common as c
import C18

N = {"quick": 6000, "thorough": 200000}
MODEL_OPS = {"KR", "KO", "KT", "KM", "LP", "LD", "SJ", "SD", "DS", "DP"}
# the implementation-only streams: result -> is it a violation of the property?
ORACLE_OK = {"RT": {"ok"}, "RZ": {"ok"}, "MJ": {"rejected"}, "SB": {"ok"}, "FZ": {"error", "value"}, "FJ": {"error", "value"}, "AB": {"rejected"}, "SU": {"ok", "rejected-on-the-wire"}}


def run(a):
    res = c.build(["num", "codec"])
    v = c.Verdict("C20", a.tier, a.seed)
    c.check_build(v, res, "C20")
    ev = c.base_evidence("C20", a.tier, a.seed, res)
    cov = ev["coverage"]
    if not res.go_ok:
        return v.finish(ev)
    # --- Int / Uint text decoders (num engine, only the JSON ops)
    out_n = os.path.join(c.WORK, "num-%s-%d" % (a.tier, a.seed))
    rc, log = c.run_engine("num", ["-seed", str(a.seed), "-n", str(C18.N[a.tier])], out_n)
    cov_n = {}
    if rc != 0:
        v.broken_obligation("num driver failed on the implementation", log[-2000:])
    else:
        C18.compare(v, res, out_n, cov_n, C18.JSON_OPS, ())
    # --- codec engine
    out = os.path.join(c.WORK, "codec-%s-%d" % (a.tier, a.seed))
    rc, log = c.run_engine("codec", ["-seed", str(a.seed), "-n", str(N[a.tier])], out, timeout=3400)
    if rc != 0:
        v.broken_obligation("codec driver failed on the implementation", log[-2000:])
        return v.finish(ev)
    ops = [l.rstrip("\n").split(" ", 1) for l in open(os.path.join(out, "codec.ops"))]
    impl = dict(l.rstrip("\n").split(" ", 1) for l in open(os.path.join(out, "codec.impl")))
    model = None
    if res.coq_ok and res.ocaml_ok:
        rc, err = c.run_model("codec", os.path.join(out, "codec.ops"), os.path.join(out, "codec.model"))
        if rc != 0:
            v.broken_obligation("extracted model failed to run", err[-2000:])
        else:
            model = dict(l.rstrip("\n").split(" ", 1) for l in open(os.path.join(out, "codec.model")))
    distinct, samples = set(), []
    corr_bad = oracle_bad = compared = 0
    for i, (ident, op) in enumerate(ops):
        kind = op.split(" ")[0]
        r = impl.get(ident, "MISSING")
        distinct.add(op)
        if i % 499 == 0 and len(samples) < 8:
            samples.append({"op": op[:160], "impl": r[:160]})
        if r.startswith("PANIC"):
            oracle_bad += 1
            v.violation({"engine": "codec", "kind": "panic", "stream": kind}, "`%s` crashed the process: %s" % (op[:200], r), {"op": op, "impl": r})
            continue
        if kind in ORACLE_OK:
            head = r.split(":")[0].split(" ")[0]
            if head not in ORACLE_OK[kind]:
                oracle_bad += 1
                sig = {"engine": "codec", "stream": kind, "kind": r.split(" ")[0]}
                v.violation(sig, "stream %s, case `%s`: %s" % (kind, op[:200], r), {"op": op, "impl": r, "seed": a.seed, "case": ident})
            continue
        if kind in MODEL_OPS:
            head = r.split(" ")[0]
            if head in ("VERIFIER-SIGNS-OTHER-BYTES", "error-decoding-the-transaction", "COLLISION", "key-outside-the-validator-prefix", "ORDER-DISAGREES-WITH-TIME", "NOT-CANONICAL", "frame-is-not-prefix++bare") or "back=false" in r:
                oracle_bad += 1
                v.violation({"engine": "codec", "stream": kind, "kind": head}, "case `%s`: %s" % (op[:200], r), {"op": op, "impl": r, "seed": a.seed, "case": ident})
                continue
            if model is None:
                continue
            compared += 1
            m = model.get(ident, "MISSING")
            if m != r:
                corr_bad += 1
                v.broken_obligation("correspondence codec/%s: implementation and proved model differ" % kind,
                                    {"op": op[:2000], "impl": r[:2000], "model": m[:2000], "seed": a.seed, "case": ident})
    cov.update({"evaluations": len(ops) + cov_n.get("evaluations", 0), "distinct_nontrivial": len(distinct) + cov_n.get("distinct_nontrivial", 0),
                "rule": "RT: random values of StdTx (7 message types, plain/multisig keys), accounts, validators, signing infos, coins, "
                        "Int/Dec/Address (zero, empty, maximal), parameters: binary and JSON round trips; SB: sign bytes of re-encoded "
                        "JSON and of five single-field changes; FZ/AB: random and mutated (truncate, bit flip, insert, delete, first byte) "
                        "bytes through every decoder and CheckTx/DeliverTx; KR/KO/KT: rank and time keys (zones, nanoseconds, year "
                        "bounds) vs model; LP/LD: uvarint frames vs model; SJ/SD: canonical JSON of random trees (duplicate keys, "
                        "alternative escapes, whitespace) and real sign bytes vs model; DS/DP: Dec.String and NewDecFromStr (18-digit boundary, fewer decimals, leading zeros, malformed) vs model; distinct = distinct op text",
                "samples": samples, "traces_validated_against_impl": compared if model is not None else 0,
                "correspondence_mismatches": corr_bad, "oracle_failures": oracle_bad,
                "op_distribution": json.load(open(os.path.join(out, "codec.stats.json"))),
                "int_uint_text_decoders": {k: cov_n.get(k) for k in ("evaluations", "distinct_nontrivial", "correspondence_mismatches", "spec_mismatches")}})
    return v.finish(ev)
