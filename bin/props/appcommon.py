"""Shared by the application-level properties (C02-C11, C17): one `app` engine run (cached per
binary/seed/size), implementation vs extracted model per state section, and property oracles that
read ONLY the implementation's observations (so a failing one is a concrete replayable input)."""
import hashlib, json, os, re
import common as c

SIZE = {"quick": (300, 22), "thorough": (3600, 40)}
SHARDS = {"quick": 6, "thorough": 12}      # the driver runs on one processor (see its quiesce()): shards run side by side
OPK = ("INIT", "BB", "TX", "AW", "BU", "EB", "CM", "RS", "HM")
POW = 1000000


def unhex(s):
    return "" if s in (".", "-", "") else s


class Obs:
    __slots__ = ("ident", "result", "sec", "abort")

    def __init__(self, line):
        self.ident, rest = line.split(" ", 1)
        self.abort = rest == "ABORT"
        self.sec = {}
        if self.abort:
            self.result = "ABORT"
            return
        parts = rest.split(" ")
        self.result = parts[0]
        for p in parts[1:]:
            i = p.find(":")
            if i > 0:
                self.sec[p[:i]] = p[i + 1:]

    def items(self, k):
        v = self.sec.get(k, "")
        if k == "P":
            v = v.split(";")[0]
        return [x for x in v.split(",") if x]

    def kv(self, k):
        d = {}
        for it in self.items(k):
            a, b = it.split("=", 1)
            d[a] = b
        return d


def parse_histories(ops_path, impl_path, model_path):
    impl = {}
    for l in open(impl_path):
        o = Obs(l.rstrip("\n"))
        impl[o.ident] = o
    model = {}
    if model_path and os.path.exists(model_path):
        for l in open(model_path):
            o = Obs(l.rstrip("\n"))
            model[o.ident] = o
    hists, cur = [], None
    for l in open(ops_path):
        l = l.rstrip("\n")
        if l.startswith("H "):
            cur = {"id": l.split(" ")[1], "header": [l], "ops": []}
            hists.append(cur)
        elif l == "E":
            cur = None
        elif cur is not None:
            if l.split(" ")[0] in OPK:
                ident = "%s.%d" % (cur["id"], len(cur["ops"]))
                cur["ops"].append((l, impl.get(ident), model.get(ident)))
            else:
                cur["header"].append(l)
    return hists


def run_sharded(a, n, blocks, out):
    """runs the driver as SHARDS processes over disjoint history-id ranges (shard 0 has the run's seed, shard k a seed derived
    from it) and concatenates their observation files; returns an error text or None"""
    import shutil, subprocess
    k = SHARDS[a.tier]
    per = (n + k - 1) // k
    os.makedirs(out, exist_ok=True)
    procs = []
    for j in range(k):
        d = os.path.join(out, "shard-%d" % j)
        os.makedirs(d, exist_ok=True)
        seed = a.seed if j == 0 else a.seed * 1000003 + j
        cmd = [os.path.join(c.HARNESS, "bin", "app"), "-seed", str(seed), "-n", str(per), "-blocks", str(blocks), "-idbase", str(j * per), "-out", d]
        procs.append((j, d, subprocess.Popen(cmd, cwd=c.HARNESS, stdout=subprocess.PIPE, stderr=subprocess.STDOUT)))
    failed = None
    for j, d, p in procs:
        try:
            o, _ = p.communicate(timeout=3400)
        except subprocess.TimeoutExpired:
            p.kill()
            o = b"timeout"
        if p.returncode != 0 and failed is None:
            failed = (d, o.decode("utf-8", "replace"))
    if failed is not None:
        d, log = failed
        for f in ("app.ops", "app.impl", "app.inflight"):        # what the failed shard had observed so far
            if os.path.exists(os.path.join(d, f)):
                shutil.copy(os.path.join(d, f), os.path.join(out, f))
        return "app driver failed: " + log[-1500:]
    for f in ("app.ops", "app.impl", "app.det", "app.xi", "app.qry", "app.gv"):
        with open(os.path.join(out, f), "wb") as w:
            for j, d, p in procs:
                fp = os.path.join(d, f)
                if os.path.exists(fp):
                    with open(fp, "rb") as r:
                        shutil.copyfileobj(r, w)
    stats = {}
    for j, d, p in procs:
        for key, val in json.load(open(os.path.join(d, "app.stats.json"))).items():
            stats[key] = stats.get(key, 0) + val
    json.dump(stats, open(os.path.join(out, "app.stats.json"), "w"), indent=1, sort_keys=True)
    for j, d, p in procs:
        shutil.rmtree(d, ignore_errors=True)
    return None


def run_engine_cached(a, res):
    n, blocks = SIZE[a.tier]
    binp = os.path.join(c.HARNESS, "bin", "app")
    h = hashlib.sha256(open(binp, "rb").read()).hexdigest()[:16]
    out = os.path.join(c.WORK, "app-%s-%d-%s" % (a.tier, a.seed, h))
    done = os.path.join(out, "DONE")
    with c.Lock("app-run"):
        if not os.path.exists(done):
            # drop stale runs of other binaries
            for d in os.listdir(c.WORK):
                if d.startswith("app-%s-%d-" % (a.tier, a.seed)) and d != os.path.basename(out):
                    import shutil
                    shutil.rmtree(os.path.join(c.WORK, d), ignore_errors=True)
            err = run_sharded(a, n, blocks, out)
            if err:
                return out, err
            open(done, "w").write("ok")
        if res.coq_ok and res.ocaml_ok:
            mh = hashlib.sha256(open(os.path.join(c.OCAML, "modelrun"), "rb").read()).hexdigest()[:16]
            mp = os.path.join(out, "app.model")
            tag = os.path.join(out, "MODEL-" + mh)
            if not os.path.exists(tag):
                rc, err = c.run_model("app", os.path.join(out, "app.ops"), mp)
                if rc != 0:
                    return out, "extracted model failed: " + err[-1500:]
                open(tag, "w").write("ok")
    return out, None


def norm(k, v):
    if k == "A":
        return ",".join(x for x in v.split(",") if x and not x.endswith("=0"))
    return v


def param(o, name, default=None):
    """raw JSON of a parameter from the X section"""
    key = name.encode().hex()
    v = o.kv("X").get(key)
    if v is None:
        return default
    return bytes.fromhex(unhex(v)).decode()


def num_param(o, name, default):
    v = param(o, name)
    if v is None:
        return default
    return int(v.strip('"'))


def rank_key(tokens, addr):
    p = tokens // POW
    inv = bytes(255 - b for b in bytes.fromhex(addr))
    return (p.to_bytes(8, "big") + inv).hex()


def parse_tx(op):
    f = dict(x.split("=", 1) for x in op.split(" ")[2:] if "=" in x)
    spec = op.split(" ")[1].split(":")
    return spec, f


def tx_signer(spec):
    k = spec[0]
    if k == "stake":
        return spec[2]
    return spec[1]


def replay_of(h, upto):
    return {"history": h["header"] + [o[0] for o in h["ops"][:upto + 1]] + ["E"],
            "impl_observation": (h["ops"][upto][1].ident if h["ops"][upto][1] else None)}


import xicheck  # noqa: E402  (needs Obs and friends from this module)


def process_ended_inside_a_transaction(out):
    """the driver died: if it was inside a DeliverTx, (history id, transaction, the history up to and including it)"""
    try:
        hid, op = open(os.path.join(out, "app.inflight")).read().split("\n")[:2]
        lines = [l.rstrip("\n") for l in open(os.path.join(out, "app.ops"))]
        start = max(i for i, l in enumerate(lines) if l.startswith("H %s " % hid) or l == "H " + hid)
        return hid, op, lines[start:] + [op, "E"]
    except Exception:
        return None


def run(a, prop, sections, oracle, what, compare_results=("TX", "HM", "EB", "INIT", "BB", "AW", "BU", "CM"), extra=None, bins=("app",)):
    res = c.build(list(bins))
    v = c.Verdict(prop, a.tier, a.seed)
    c.check_build(v, res, prop)
    ev = c.base_evidence(prop, a.tier, a.seed, res)
    cov = ev["coverage"]
    if not res.go_ok:
        return v.finish(ev)
    out, err = run_engine_cached(a, res)
    if err:
        died = process_ended_inside_a_transaction(out)
        if died is not None:
            v.violation({"engine": "app", "kind": "process-ended-inside-DeliverTx"},
                        "the application process ended while executing `%s` (history %s): no response, no further blocks" % (died[1][:200], died[0]),
                        {"history": died[2], "driver_output": err[-600:]})
        else:
            v.broken_obligation(err.split(":")[0], err)
        return v.finish(ev)
    model_path = os.path.join(out, "app.model") if (res.coq_ok and res.ocaml_ok) else None
    hists = parse_histories(os.path.join(out, "app.ops"), os.path.join(out, "app.impl"), model_path)
    nops = mism = flagged = 0
    distinct = set()
    samples = []
    for hi, h in enumerate(hists):
        distinct.add(hashlib.sha1("\n".join(o[0] for o in h["ops"]).encode()).hexdigest())
        if hi % 97 == 0 and len(samples) < 2:
            samples.append({"history": h["header"][:3] + [o[0][:200] for o in h["ops"][:12]],
                            "first_observation": (h["ops"][0][1].result if h["ops"] and h["ops"][0][1] else None)})
        # (b) the property on the implementation's own observations
        try:
            bad = oracle(h) if oracle else None
        except Exception:           # an observation the oracle cannot read is a broken check, never a silent pass or a crash
            import traceback
            v.broken_obligation("the %s oracle could not interpret the implementation's observations of history %s" % (prop, h["id"]),
                                traceback.format_exc()[-1500:])
            bad = None
        if bad is not None:
            idx, msg, sig = bad
            flagged += 1
            v.violation(dict(sig, engine="app"), "%s: %s (history %s, op %d `%s`)" % (what, msg, h["id"], idx, h["ops"][idx][0][:160]),
                        replay_of(h, idx))
        # (a) correspondence with the proved model, on the sections this property is about
        for j, (op, io, mo) in enumerate(h["ops"]):
            nops += 1
            if io is None or mo is None:
                if model_path and (io is None) != (mo is None):
                    mism += 1
                    if bad is None:
                        v.broken_obligation("correspondence app/%s: observation missing on one side" % prop, replay_of(h, j))
                break
            diffs = []
            if io.abort != mo.abort:
                diffs.append("abort")
            elif not io.abort:
                if op.split(" ")[0] in compare_results and io.result != mo.result:
                    diffs.append("result")
                for k in sections:
                    if norm(k, io.sec.get(k, "")) != norm(k, mo.sec.get(k, "")):
                        diffs.append(k)
            if diffs:
                mism += 1
                if bad is None:
                    rp = replay_of(h, j)
                    rp.update({"differs_in": diffs, "impl": {k: io.sec.get(k) for k in diffs if k in io.sec},
                               "model": {k: mo.sec.get(k) for k in diffs if k in mo.sec},
                               "impl_result": io.result, "model_result": mo.result})
                    v.broken_obligation("correspondence app/%s: implementation and proved model differ in %s at op `%s`"
                                        % (prop, diffs, op[:120]), rp)
                break
            if io.abort:
                break
    xicheck.run(prop, v, out, hists, cov)
    if extra is not None:
        extra(v, out, hists, cov, a, res)
    stats = json.load(open(os.path.join(out, "app.stats.json")))
    cov.update({
        "evaluations": len(hists), "distinct_nontrivial": len(distinct),
        "rule": "seeded histories: random genesis (validators, balances, parameters incl. small MaxValidators/windows), blocks with "
                "votes from the emulated Tendermint set, rare double-sign evidence, keeper awards/burns, 0-4 transactions per block "
                "with precondition-aware amounts and signature/fee mutations; distinct = distinct op lists; compared after EVERY op",
        "samples": samples, "traces_validated_against_impl": len(hists) if model_path else 0,
        "ops_compared": nops, "histories_with_model_mismatch": mism, "histories_flagged_by_oracle": flagged,
        "sections_compared": sorted(sections),
        "op_distribution": {k: v_ for k, v_ in stats.items() if k.startswith("op/") or k.startswith("tx/")},
    })
    return v.finish(ev)
