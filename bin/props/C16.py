"""C16 — prefix isolation, exact gas, faithful trace."""
import kvcommon

def run(a):
    return kvcommon.run(a, "C16", lambda shape: any(s != "cache" for s in shape), {"result", "gas", "trace"},
                        "prefix/gas/trace wrapper differs from the documented behaviour")
