"""C04 — engine `app` (see appcommon.py / apporacles.py and coq/Props/C04.v)."""
import appcommon, apporacles

def run(a):
    return appcommon.run(a, "C04", set("ASV"), apporacles.c04, "staked pool does not back validator stake")
