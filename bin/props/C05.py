"""C05 — engine `app` (see appcommon.py / apporacles.py and coq/Props/C05.v)."""
import appcommon, apporacles

def run(a):
    return appcommon.run(a, "C05", set("IP"), apporacles.c05, "validator updates / Tendermint set wrong")
