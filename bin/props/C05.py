"""C05 — engine `app` (see appcommon.py / apporacles.py and coq/Props/C05.v), plus the guard in front of InitChain: a genesis
file that lists one validator key twice must be refused by the pos module's genesis validation (started from it, InitChain
returns that key twice in one batch)."""
import os
import appcommon, apporacles


def genesis_guard(v, out, hists, cov, a=None, res=None):
    n = bad = 0
    path = os.path.join(out, "app.gv")
    for l in open(path) if os.path.exists(path) else []:
        n += 1
        f = l.rstrip("\n").split(" ")
        if f[4].startswith("refused"):
            continue
        if f[4] == "control-refused":
            v.broken_obligation("the genesis-validation control (the same file without the repeated entry) is refused", l.strip())
            continue
        bad += 1
        if bad == 1:
            v.violation({"engine": "app", "kind": "genesis-with-a-duplicate-key-accepted"},
                        "genesis validation accepts a validator list that repeats a key (entry %s %s): %s"
                        % (f[2].split("=")[1], f[3], " ".join(f[4:])[:300]), {"history": f[0], "line": l.strip()})
    cov["genesis_files_with_a_repeated_key_offered"] = n
    cov["genesis_files_with_a_repeated_key_accepted"] = bad


def run(a):
    return appcommon.run(a, "C05", set("IP"), apporacles.c05, "validator updates / Tendermint set wrong", extra=genesis_guard)
