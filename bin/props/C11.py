"""C11 — rejected transactions and read-only calls leave no trace: engine `app` (appcommon.py / apporacles.py,
coq/Props/C11.v) plus the CheckTx/Simulate/Query-interleaved replay of every history."""
import os
import appcommon, apporacles


def readonly_traffic(v, out, hists, cov, a=None, res=None):
    byid = {h["id"]: h for h in hists}
    n = bad = 0
    for l in open(os.path.join(out, "app.det")):
        hid, variant, rest = l.rstrip("\n").split(" ", 2)
        if not variant.endswith("interleaved"):
            continue
        n += 1
        if rest != "same":
            bad += 1
            h = byid.get(hid)
            v.violation({"engine": "app", "kind": "read-only-call-changed-state"},
                        "interleaving CheckTx / Simulate / Query with history %s changed a later response or app hash: %s" % (hid, rest[:300]),
                        {"history": (h["header"] + [o[0] for o in h["ops"]] + ["E"]) if h else [], "difference": rest})
    cov["interleaved_replays"] = n
    cov["interleaved_replays_diverged"] = bad


def run(a):
    return appcommon.run(a, "C11", set("ASVIPQGMWBR"), apporacles.c11, "rejected transaction left a trace", extra=readonly_traffic)
