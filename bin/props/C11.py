"""C11 — engine `app` (see appcommon.py / apporacles.py and coq/Props/C11.v)."""
import appcommon, apporacles

def run(a):
    return appcommon.run(a, "C11", set("ASVIPQGMWBR"), apporacles.c11, "rejected transaction left a trace")
