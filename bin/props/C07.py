"""C07 — engine `app` (see appcommon.py / apporacles.py and coq/Props/C07.v)."""
import appcommon, apporacles

def run(a):
    return appcommon.run(a, "C07", set("ASVB"), apporacles.c07, "slashing not exact")
