"""C02 — engine `app` (see appcommon.py / apporacles.py and coq/Props/C02.v)."""
import appcommon, apporacles

def run(a):
    return appcommon.run(a, "C02", set("AS"), apporacles.c02, "token conservation fails")
