"""Property oracles over the IMPLEMENTATION's observations of one history (engine `app`).
Each returns None or (op index, message, signature-dict). They restate the property text on the
state decoded from the raw stores; no model is involved."""
from appcommon import POW, num_param, param, parse_tx, rank_key, tx_signer, unhex


def header_val(h, tag):
    for l in h["header"]:
        if l.startswith(tag + " "):
            return l.split(" ")[1:]
    return None


def mods(h):
    f = dict(x.split("=") for x in h["header"][0].split(" ")[2:])
    return f  # fee pool pos dao govfee


def balances(o):
    return {a: int(b) for a, b in o.kv("A").items() if not a.startswith("UNKNOWN")}


def validators(o):
    d = {}
    for a, v in o.kv("V").items():
        st, j, tok, ut = v.split("/")
        d[a] = (int(st), j == "1", int(tok), int(ut))
    return d


def obs_list(h):
    return [(i, op, io) for i, (op, io, mo) in enumerate(h["ops"]) if io is not None and not io.abort]


# ------------------------------------------------------------------ C02
def c02(h):
    prevS = None
    for i, op, o in obs_list(h):
        bal = balances(o)
        S = int(o.sec.get("S", "0"))
        if any("UNKNOWNKEY" in x for x in o.items("A")):
            return i, "unknown key in the account store", {"kind": "unknown-key"}
        if any(b < 0 for b in bal.values()):
            return i, "negative balance", {"kind": "negative-balance"}
        if sum(bal.values()) != S:
            return i, "supply %d != sum of balances %d" % (S, sum(bal.values())), {"kind": "supply-ne-sum"}
        k = op.split(" ")[0]
        if prevS is not None and S != prevS:
            ok = k in ("BB", "INIT") or (k == "TX" and op.split(" ")[1].startswith("dao:") and o.result == "ok")
            if not ok:
                return i, "supply changed by %d on an op that neither mints nor burns" % (S - prevS), {"kind": "supply-moved"}
        prevS = S
    return None


# ------------------------------------------------------------------ C04
def c04(h):
    m = mods(h)
    gifts = queued = 0      # gifts: what anybody handed to the pool's address outright (the theorem's op_nogift excludes them)
    for i, op, o in obs_list(h):
        if op.startswith("TX send:") and o.result == "ok":
            spec, f = parse_tx(op)
            if spec[2] == m["pool"]:
                gifts += int(spec[3])
        elif op.startswith("AW ") and op.split(" ")[1] == m["pool"]:
            queued += int(op.split(" ")[2])      # an award to the pool's own address: minted at the next BeginBlock
        elif op.startswith("BB ") and not o.abort:
            gifts, queued = gifts + queued, 0
        bal = balances(o)
        staked = sum(t for (st, j, t, ut) in validators(o).values() if st != 0)
        if bal.get(m["pool"], 0) - gifts != staked:
            return i, "staked pool holds %d (gifts %d) but validators record %d" % (bal.get(m["pool"], 0), gifts, staked), {"kind": "pool-ne-stake"}
    # exact moves on stake / maturity
    L = obs_list(h)
    for n in range(1, len(L)):
        i, op, o = L[n]
        _, _, p = L[n - 1]
        if op.startswith("TX stake:") and o.result == "ok":
            spec, f = parse_tx(op)
            a, amt, fee = spec[2], int(spec[3]), int(f["fee"])
            b0, b1 = balances(p), balances(o)
            v0, v1 = validators(p).get(a, (0, False, 0, 0)), validators(o).get(a)
            if v1 is None or v1[2] - v0[2] != amt or b0.get(a, 0) - b1.get(a, 0) != amt + fee \
                    or b1.get(m["pool"], 0) - b0.get(m["pool"], 0) != amt:
                return i, "stake of %d did not move exactly that amount account->pool->record" % amt, {"kind": "stake-not-exact"}
    return None


# ------------------------------------------------------------------ C05
def expected_set(o):
    maxv = num_param(o, "pos/MaxValidators", 100000)
    cands = [(t // POW, a) for a, (st, j, t, ut) in validators(o).items() if st == 2 and not j]
    cands.sort(key=lambda x: (-x[0], x[1]))
    return {a: p for p, a in cands[:maxv]}


def eb_abort(h):
    """EndBlock never panics on the unchanged tree: a block that dies there returns no validator updates and releases nobody"""
    for i, (op, io, mo) in enumerate(h["ops"]):
        if io is not None and io.abort and op.split(" ")[0] == "EB":
            return i, "EndBlock aborted (panic): no validator updates are returned and nobody due is released", {"kind": "endblock-aborts"}
    return None


def c05(h):
    bad = eb_abort(h)
    if bad:
        return bad
    for i, op, o in obs_list(h):
        k = op.split(" ")[0]
        if k not in ("EB", "INIT"):
            continue
        if "TERR" in o.sec:
            return i, "validator updates cannot be applied to Tendermint's set: " + o.sec["TERR"], {"kind": "not-applicable", "detail": o.sec["TERR"]}
        ups = o.result[2:-1]
        for u in [x for x in ups.split(",") if x]:
            if int(u.split(":")[1]) < 0:
                return i, "negative power in update", {"kind": "not-applicable", "detail": "negative-power"}
        tm = {a: int(p) for a, p in o.kv("T").items()}
        exp = expected_set(o)
        if tm != exp:
            return i, "Tendermint set %s != top-MaxValidators staked unjailed %s" % (tm, exp), {"kind": "set-ne-topN"}
    return None


# ------------------------------------------------------------------ C06
def c06(h):
    bad = eb_abort(h)
    if bad:
        return bad
    L = obs_list(h)
    minstake0 = None
    for n, (i, op, o) in enumerate(L):
        vs = validators(o)
        if any("UNKNOWNKEY" in x for x in o.items("V")):
            return i, "unknown key in the pos store", {"kind": "unknown-key"}
        idx = o.kv("I")
        exp = {rank_key(t, a): a for a, (st, j, t, ut) in vs.items() if st == 2 and not j}
        if idx != exp:
            return i, "power index %s != staked unjailed validators %s" % (sorted(idx.items()), sorted(exp.items())), {"kind": "index-not-exact"}
        q = {}
        for t, addrs in o.kv("Q").items():
            q[t] = sorted(addrs.split("+"))
        expq = {}
        for a, (st, j, t, ut) in vs.items():
            if st == 1:
                expq.setdefault(str(ut), []).append(a)
        expq = {t: sorted(x) for t, x in expq.items()}
        # stale entries of force-unstaked validators may stay until their time comes: every UNSTAKING validator must be queued
        for t, xs in expq.items():
            if not set(xs) <= set(q.get(t, [])):
                return i, "unstaking validators %s not queued at their completion time %s" % (xs, t), {"kind": "queue-not-exact"}
        ms = num_param(o, "pos/StakeMinimum", 1000000)
        if minstake0 is None:
            minstake0 = ms
        if ms == minstake0:
            for a, (st, j, t, ut) in vs.items():
                if st != 0 and t < ms:
                    return i, "validator %s is not unstaked but holds %d < minimum stake" % (a, t), {"kind": "below-min-stake"}
        if n == 0:
            continue
        _, _, p = L[n - 1]
        pv = validators(p)
        kind = op.split(" ")[0]
        blk = None
        for a in set(pv) | set(vs):
            s0 = pv[a][0] if a in pv else None
            s1 = vs[a][0] if a in vs else None
            if s0 == s1:
                continue
            spec = parse_tx(op)[0] if kind == "TX" else None
            if s1 == 2:        # -> staked: only by its own stake tx from new/unstaked
                if not (kind == "TX" and spec[0] == "stake" and spec[2] == a and o.result == "ok" and s0 in (None, 0)):
                    return i, "illegal transition %s -> staked for %s" % (s0, a), {"kind": "illegal-transition"}
            elif s1 == 1:      # -> unstaking: only by its own begin-unstake from staked
                if not (kind == "TX" and spec[0] == "unstake" and spec[1] == a and o.result == "ok" and s0 == 2):
                    return i, "illegal transition %s -> unstaking for %s" % (s0, a), {"kind": "illegal-transition"}
            elif s1 is None:   # removed: only at EndBlock, from unstaking, at/after completion, stake returned
                now = cur_time(h, i)
                if not (kind == "EB" and s0 == 1 and now is not None and now >= pv[a][3]):
                    return i, "validator %s removed outside a matured unstake" % a, {"kind": "illegal-transition"}
                b0, b1 = balances(p), balances(o)
                if b1.get(a, 0) - b0.get(a, 0) != pv[a][2]:
                    return i, "matured unstake returned %d instead of the recorded %d" % (b1.get(a, 0) - b0.get(a, 0), pv[a][2]), {"kind": "payout-not-exact"}
            elif s1 == 0:      # forced unstake: only inside BeginBlock (slash / evidence / burn)
                if kind != "BB":
                    return i, "validator %s became unstaked outside BeginBlock" % a, {"kind": "illegal-transition"}
        # maturity is not late: after an EndBlock no unstaking validator has a completion time <= block time
        if kind == "EB":
            now = cur_time(h, i)
            for a, (st, j, t, ut) in vs.items():
                if st == 1 and now is not None and ut <= now and t >= ms:
                    return i, "unstaking validator %s (completion %d) still unstaking after the EndBlock of time %d" % (a, ut, now), {"kind": "late-payout"}
    return None


def cur_time(h, idx):
    for j in range(idx, -1, -1):
        op = h["ops"][j][0]
        if op.startswith("BB "):
            return int(op.split(" ")[2])
    return None


# ------------------------------------------------------------------ C07
def c07(h):
    """every burn of stake is matched one-for-one in pool and supply, nobody else's balance moves at
    BeginBlock except awards/fees; a validator whose stake fell below the minimum is unstaked with 0"""
    m = mods(h)
    L = obs_list(h)
    for n in range(1, len(L)):
        i, op, o = L[n]
        if not op.startswith("BB "):
            continue
        _, _, p = L[n - 1]
        v0, v1 = validators(p), validators(o)
        b0, b1 = balances(p), balances(o)
        burned = 0
        for a in v0:
            t0 = v0[a][2]
            t1 = v1[a][2] if a in v1 else t0
            if t1 > t0:
                return i, "stake of %s grew during BeginBlock" % a, {"kind": "stake-grew"}
            burned += t0 - t1
            ms = num_param(o, "pos/StakeMinimum", 1000000)
            if a in v1 and t1 < t0 and t1 < ms and not (v1[a][0] == 0 and t1 == 0):
                return i, "%s slashed below the minimum stake but not force-unstaked with the remainder burned" % a, {"kind": "no-force-unstake"}
        # exact amount when exactly one slash source hits a validator in this block
        bad = c07_exact(h, i, op, p, o, v0, v1)
        if bad is not None:
            return bad
        awards = sum(int(x) for x in p.kv("W").values())
        dS = int(o.sec["S"]) - int(p.sec["S"])
        if dS != awards - burned:
            return i, "supply moved by %d at BeginBlock; awards %d, stake removed %d" % (dS, awards, burned), {"kind": "burn-not-exact"}
        # (an award queued for the pool's own address is minted into it and stays there)
        dpool = b1.get(m["pool"], 0) - b0.get(m["pool"], 0) - int(p.kv("W").get(m["pool"], 0))
        if dpool != -burned:
            return i, "staked pool moved by %d, stake removed %d" % (dpool, burned), {"kind": "burn-not-exact"}
    return None


def c07_exact(h, i, op, p, o, v0, v1):
    ms = num_param(p, "pos/StakeMinimum", 1000000)
    W = num_param(p, "pos/SignedBlocksWindow", 100)
    height = int(op.split(" ")[1])
    burns = {a: int(x) for a, x in p.kv("B").items()}
    ev = {}
    for e in [x for x in op.split("ev=")[1].split(",") if x]:
        a, eh, et, pw = e.split(":")
        ev.setdefault(a, []).append(int(pw))
    votes = {}
    for vt in [x for x in op.split("votes=")[1].split(" ")[0].split(",") if x]:
        a, pw, sg = vt.split(":")
        votes[a] = (int(pw), sg == "1")
    g0 = p.kv("G")
    dt = float_dec(param(p, "pos/SlashFractionDowntime") or '"0"')
    ds = float_dec(param(p, "pos/SlashFractionDoubleSign") or '"0"')
    minsigned_raw = param(p, "pos/MinSignedPerWindow")
    msw = int(round_half_even(int(float_dec(minsigned_raw) * W), 10 ** 18)) if minsigned_raw else 0
    for a, (st, j, t0, ut) in v0.items():
        if st == 0:
            continue
        sources = []
        if a in burns:
            sources.append(("burn", (t0 // POW if st == 2 else 0), burns[a]))
        if a in votes and a in g0 and not j:
            start, off, ju, tomb, ctr = g0[a].split("/")
            pw, signed = votes[a]
            # would this vote push the counter over the threshold? (only when the previous bit at the ring index was unset)
            idx = int(off) % W
            bit = p.kv("M").get(a + idx.to_bytes(8, "little").hex(), "0") == "1"
            newctr = int(ctr) + (1 if (not signed and not bit) else 0) - (1 if (signed and bit) else 0)
            if height > int(start) + W and newctr > W - msw:
                sources.append(("downtime", pw, dt))
        if a in ev:
            sources.append(("evidence", ev[a][0], ds))
        if len(sources) != 1 or (a in ev and len(ev[a]) > 1):
            continue
        kind, pw, f = sources[0]
        amount = min(pw * POW * f // 10 ** 18, t0) if f >= 0 else 0
        t1 = t0 - amount
        exp_status, exp_tokens = st, t1
        if kind == "evidence":
            exp_status, exp_tokens = 0, 0
        elif amount > 0 and t1 < ms:
            exp_status, exp_tokens = 0, 0
        got = v1.get(a)
        if got is None:
            continue
        if (got[0], got[2]) != (exp_status, exp_tokens):
            return i, "%s slash of %s (stake %d, power %d, fraction %d/10^18): expected stake %d status %d, got stake %d status %d" % (
                kind, a, t0, pw, f, exp_tokens, exp_status, got[2], got[0]), {"kind": "slash-not-exact", "source": kind}
    return None


# ------------------------------------------------------------------ C08
def c08(h):
    """missed counter == misses among the last W votes since the last reset; jailed for downtime exactly
    when the count first exceeds W - minSigned after start+W, never while jailed; jailing clears the window"""
    hist = {}          # addr -> list of missed flags since last reset
    L = obs_list(h)
    cfg0 = None
    for n, (i, op, o) in enumerate(L):
        # the property fixes the window configuration per history: stop once governance changes it
        cfg = (param(o, "pos/SignedBlocksWindow"), param(o, "pos/MinSignedPerWindow"))
        if cfg0 is None:
            cfg0 = cfg
        if cfg != cfg0:
            return None
        if not op.startswith("BB "):
            continue
        _, _, p = L[n - 1]
        W = num_param(p, "pos/SignedBlocksWindow", 100)
        Wn = num_param(o, "pos/SignedBlocksWindow", 100)
        height = int(op.split(" ")[1])
        votes = [x for x in op.split("votes=")[1].split(" ")[0].split(",") if x]
        gi0, gi1 = p.kv("G"), o.kv("G")
        v0, v1 = validators(p), validators(o)
        ev = [x.split(":")[0] for x in op.split("ev=")[1].split(",") if x]
        for vt in votes:
            a, pw, sg = vt.split(":")
            if a not in gi1:
                continue
            start, off, ju, tomb, ctr = gi1[a].split("/")
            s0 = gi0.get(a, "0/0/0/0/0").split("/")
            lst = hist.setdefault(a, [])
            # a signing-info record re-created or window parameter changed: restart tracking
            if W != Wn:
                hist[a] = None
                continue
            if lst is None:
                continue
            lst.append(sg == "0")
            exp = sum(lst[-W:])
            was_jailed = v0.get(a, (0, False, 0, 0))[1]
            now_jailed = v1.get(a, (0, False, 0, 0))[1]
            minsigned_raw = param(p, "pos/MinSignedPerWindow")
            ms = int(round_half_even(int(float_dec(minsigned_raw) * W), 10 ** 18)) if minsigned_raw else 0
            crossing = height > int(s0[0]) + W and exp > W - ms
            if a in ev:
                hist[a] = None   # double-sign handling interleaves; stop tracking this validator
                continue
            if crossing and not was_jailed and a in v0:
                if not now_jailed:
                    return i, "validator %s crossed the downtime threshold (%d missed of last %d, allowed %d) at height %d but was not jailed" % (a, exp, W, W - ms, height), {"kind": "not-jailed"}
                if int(ctr) != 0 or int(off) != 0 or any(k.startswith(a) for k in o.kv("M")):
                    return i, "window of %s not cleared on jailing" % a, {"kind": "window-not-cleared"}
                hist[a] = []
                continue
            if (not was_jailed) and now_jailed:
                return i, "validator %s jailed for downtime without crossing the threshold (%d missed of last %d, allowed %d, height %d, start %s)" % (a, exp, W, W - ms, height, s0[0]), {"kind": "jailed-early"}
            if int(ctr) != exp:
                return i, "missed counter of %s is %s, sliding window holds %d" % (a, ctr, exp), {"kind": "counter-ne-window"}
            bits = sum(1 for k, b in o.kv("M").items() if k.startswith(a) and b == "1" and int.from_bytes(bytes.fromhex(k[len(a):]), "little") < W)
            if bits != exp:
                return i, "stored missed bits of %s are %d, sliding window holds %d" % (a, bits, exp), {"kind": "counter-ne-window"}
    return None


def float_dec(raw):
    """Dec JSON "0.500000000000000000" -> integer raw value (x 10^18)"""
    s = raw.strip('"')
    neg = s.startswith("-")
    s = s.lstrip("-")
    ip, _, fp = s.partition(".")
    v = int(ip) * 10 ** 18 + int((fp + "0" * 18)[:18])
    return -v if neg else v


def round_half_even(n, d):
    q, r = divmod(n, d)
    if 2 * r > d or (2 * r == d and q % 2 == 1):
        q += 1
    return q


# ------------------------------------------------------------------ C09
def c09(h):
    tomb = set()
    L = obs_list(h)
    for n, (i, op, o) in enumerate(L):
        vs = validators(o)
        idx_addrs = set(o.kv("I").values())
        for a, (st, j, t, ut) in vs.items():
            if j and a in idx_addrs:
                return i, "jailed validator %s is in the power index" % a, {"kind": "jailed-in-index"}
        if op.split(" ")[0] in ("EB", "INIT"):
            for a in o.kv("T"):
                if a in vs and vs[a][1]:
                    return i, "jailed validator %s is in Tendermint's set after the update" % a, {"kind": "jailed-has-power"}
        gi = o.kv("G")
        if op.startswith("BB ") and o.result == "ok":
            for e in [x for x in op.split("ev=")[1].split(",") if x]:
                a = e.split(":")[0]
                g = gi.get(a)
                if g is None or g.split("/")[3] != "1" or a not in vs or not vs[a][1]:
                    return i, "validator %s convicted of double signing is not tombstoned and jailed (signing info %s, validator %s)" % (a, g, vs.get(a)), {"kind": "double-sign-not-tombstoned"}
                if vs[a][0] != 0 or vs[a][2] != 0:
                    return i, "validator %s convicted of double signing keeps stake %d / status %d" % (a, vs[a][2], vs[a][0]), {"kind": "double-sign-stake-kept"}
        for a, g in gi.items():
            if g.split("/")[3] == "1":
                tomb.add(a)
        for a in tomb:
            if a in vs and not vs[a][1]:
                return i, "tombstoned validator %s is not jailed" % a, {"kind": "tombstone-not-permanent"}
            if a in gi and gi[a].split("/")[3] != "1":
                return i, "tombstone of %s was lifted" % a, {"kind": "tombstone-not-permanent"}
        if n > 0 and op.startswith("TX unjail:") and o.result == "ok":
            _, _, p = L[n - 1]
            a = op.split(" ")[1].split(":")[1]
            pv = validators(p).get(a)
            g = p.kv("G").get(a)
            now = cur_time(h, i)
            ms = num_param(p, "pos/StakeMinimum", 1000000)
            if pv is None or not pv[1] or pv[2] < ms or g is None or g.split("/")[3] == "1" or jail_ns(g) > now:
                return i, "unjail of %s succeeded although a precondition fails (validator %s, signing info %s, time %s)" % (a, pv, g, now), {"kind": "unjail-precondition"}
            if vs[a][1]:
                return i, "unjail of %s succeeded but it is still jailed" % a, {"kind": "unjail-no-effect"}
    return None


def jail_ns(g):
    sec, ns = g.split("/")[2].split(".")
    return int(sec) * 10 ** 9 + int(ns)


# ------------------------------------------------------------------ C10
def c10(h):
    m = mods(h)
    L = obs_list(h)
    last_proposer = None        # proposer named by the previous BeginBlock REQUEST
    for n in range(1, len(L)):
        i, op, o = L[n]
        if not op.startswith("BB "):
            continue
        _, _, p = L[n - 1]
        req_prev, last_proposer = last_proposer, op.split(" ")[3]
        height = int(op.split(" ")[1])
        b0, b1 = balances(p), balances(o)
        v0, v1 = validators(p), validators(o)
        awards = {a: int(x) for a, x in p.kv("W").items()}
        if o.items("W"):
            return i, "award queue not empty after BeginBlock", {"kind": "awards-left"}
        fees = b0.get(m["fee"], 0) if height > 1 else 0
        prevprop = req_prev if req_prev is not None else p.sec.get("R", "-")
        exp = dict(b0)
        if height > 1:
            exp[m["fee"]] = 0
            if prevprop in v0:
                exp[prevprop] = exp.get(prevprop, 0) + fees
            else:
                exp[m["pos"]] = exp.get(m["pos"], 0) + fees
        for a, x in awards.items():
            exp[a] = exp.get(a, 0) + x
        # stake burned from the pool during the same BeginBlock
        burned = 0
        for a in v0:
            t1 = v1[a][2] if a in v1 else v0[a][2]
            burned += v0[a][2] - t1
        exp[m["pool"]] = exp.get(m["pool"], 0) - burned
        e = {a: x for a, x in exp.items() if x != 0}
        g = {a: x for a, x in b1.items() if x != 0}
        if e != g:
            d = {a: (e.get(a, 0), g.get(a, 0)) for a in set(e) | set(g) if e.get(a, 0) != g.get(a, 0)}
            return i, "balances after BeginBlock differ from fees->proposer + awards (expected, got): %s" % d, {"kind": "reward-not-exact"}
    return None


# ------------------------------------------------------------------ C03
def c03(h):
    m = mods(h)
    L = obs_list(h)
    haspk = {l.split(" ")[1]: l.split(" ")[1] for l in h["header"] if l.startswith("ACC ")}
    haspk.pop(m["pool"], None)
    for l in h["header"]:
        if l.startswith("PKOF "):           # the genesis file records somebody else's key for this account
            haspk[l.split(" ")[1]] = l.split(" ")[2]
    for n in range(1, len(L)):
        i, op, o = L[n]
        if not op.startswith("TX "):
            continue
        _, _, p = L[n - 1]
        spec, f = parse_tx(op)
        signer = tx_signer(spec)
        if o.result != "ok":
            # a handler error after the ante handler accepted the transaction: the fee has been collected
            if not (int(f["fee"]) > 0 and balances(o).get(m["fee"], 0) == balances(p).get(m["fee"], 0) + int(f["fee"])
                    and balances(o).get(signer, 0) == balances(p).get(signer, 0) - int(f["fee"])):
                continue
        att = f["att"]
        key = att if att != "-" else haspk.get(signer)
        if key != signer:
            return i, "accepted a transaction verified under key %s that is not the signer %s" % (key, signer), {"kind": "wrong-key"}
        if f["by"] != key or f["mut"] == "1" or f["sigempty"] == "1":
            return i, "accepted a transaction whose signature does not verify (signed by %s, mutated=%s)" % (f["by"], f["mut"]), {"kind": "bad-signature"}
        if f["dup"] == "1":
            return i, "accepted a replayed transaction", {"kind": "replay"}
        need = required_fee(p, spec, int(m["govfee"]))
        fee = int(f["fee"])
        if fee < need:
            return i, "accepted fee %d below the required %d" % (fee, need), {"kind": "fee-too-low"}
    return None


def required_fee(o, spec, govfee):
    base = govfee if spec[0] in ("param", "dao", "upgrade") else 0
    name = {"stake": "stake_validator", "unstake": "begin_unstaking_validator", "unjail": "unjail", "send": "send",
            "param": "change_param", "dao": "dao_tranfer", "upgrade": "upgrade"}[spec[0]]
    import json
    raw = param(o, "auth/FeeMultipliers")
    mult = 1
    if raw:
        fm = json.loads(raw)
        mult = int(fm.get("default", "1"))
        for e in fm.get("fee_multiplier") or []:
            if e["key"] == name:
                mult = int(e["multiplier"])
    return base * mult


# ------------------------------------------------------------------ C11
def c11(h):
    """a rejected transaction leaves everything as it was, except the fee of one that passed the ante handler"""
    m = mods(h)
    L = obs_list(h)
    for n in range(1, len(L)):
        i, op, o = L[n]
        if not op.startswith("TX ") or o.result != "err":
            continue
        _, _, p = L[n - 1]
        spec, f = parse_tx(op)
        signer, fee = tx_signer(spec), int(f["fee"])
        for k in ("S", "V", "I", "P", "Q", "G", "M", "W", "B", "R", "X"):
            if o.sec.get(k) != p.sec.get(k):
                return i, "rejected transaction changed state section %s" % k, {"kind": "trace-left", "section": k}
        b0, b1 = balances(p), balances(o)
        # not even an empty account record may appear (except the fee collector's: the ante handler of a transaction
        # that is refused only by its message handler has already paid the - possibly zero - fee into it)
        born = set(b1) - set(b0) - {m["fee"]}
        if born:
            return i, "rejected transaction created account record(s) %s" % sorted(born), {"kind": "trace-left", "section": "A-keys"}
        if b0 != b1 and not basic_ok(spec):
            return i, "a statelessly invalid message (ValidateBasic fails) was charged a fee or moved balances", {"kind": "trace-left", "section": "A"}
        if b0 != b1:
            exp = dict(b0)
            exp[signer] = exp.get(signer, 0) - fee
            exp[m["fee"]] = exp.get(m["fee"], 0) + fee
            if {a: x for a, x in exp.items() if x} != {a: x for a, x in b1.items() if x}:
                return i, "rejected transaction changed balances beyond its fee", {"kind": "trace-left", "section": "A"}
    return None


def basic_ok(spec):
    """msg.ValidateBasic as the message types define it (amounts, actions, heights, empty addresses)"""
    k = spec[0]
    try:
        if k == "stake":
            return spec[1] not in ("", ".", "-") and int(spec[3]) > 0
        if k in ("unstake", "unjail"):
            return spec[1] not in ("", ".", "-")
        if k == "send":
            return spec[1] not in ("", ".", "-") and spec[2] not in ("", ".", "-") and int(spec[3]) > 0
        if k == "dao":
            return int(spec[3]) != 0 and -2 ** 63 <= int(spec[3]) < 2 ** 63 and spec[4] in ("1", "2") and not (spec[4] == "1" and spec[2] in ("", ".", "-"))
        if k == "upgrade":
            return int(spec[2]) != 0
    except (ValueError, IndexError):
        return True
    return True


# ------------------------------------------------------------------ C17
def is_msg(op, kind):
    """a governance message, inside a transaction or handed to the handler directly"""
    return op.startswith("TX %s:" % kind) or op.startswith("HM %s:" % kind)


def c17(h):
    m = mods(h)
    L = obs_list(h)
    for n in range(1, len(L)):
        i, op, o = L[n]
        _, _, p = L[n - 1]
        x0, x1 = p.kv("X"), o.kv("X")
        changed = [k for k in set(x0) | set(x1) if x0.get(k) != x1.get(k)]
        if changed:
            ok = False
            if is_msg(op, "param") and o.result == "ok":
                spec, f = parse_tx(op)
                frm, key, raw = spec[1], spec[2], spec[-2]
                owner = acl_owner(p, bytes.fromhex(key).decode())
                ok = changed == [key] and owner == frm and x1.get(key) == raw
            if is_msg(op, "upgrade") and o.result == "ok":
                spec, f = parse_tx(op)
                ukey = b"gov/upgrade".hex()
                ok = changed == [ukey] and acl_owner(p, "gov/upgrade") == spec[1] and x1.get(ukey) == spec[3]
            if not ok:
                return i, "parameters %s changed by `%s`" % ([bytes.fromhex(k).decode() for k in changed], op[:100]), {"kind": "param-changed"}
        if is_msg(op, "upgrade") and o.result == "ok":
            spec, f = parse_tx(op)
            if acl_owner(p, "gov/upgrade") != spec[1]:
                return i, "upgrade accepted from %s who does not own gov/upgrade" % spec[1], {"kind": "not-owner"}
        if is_msg(op, "param") and o.result == "ok":
            spec, f = parse_tx(op)
            if acl_owner(p, bytes.fromhex(spec[2]).decode()) != spec[1]:
                return i, "change-param accepted from %s who does not own %s" % (spec[1], bytes.fromhex(spec[2]).decode()), {"kind": "not-owner"}
        # DAO funds
        b0, b1 = balances(p), balances(o)
        d = b1.get(m["dao"], 0) - b0.get(m["dao"], 0)
        if d != 0:
            ok = False
            if is_msg(op, "dao") and o.result == "ok":
                spec, f = parse_tx(op)
                owner = param(p, "gov/daoOwner")
                ok = owner is not None and owner.strip('"') == spec[1] and d == -int(spec[3]) and int(spec[3]) <= b0.get(m["dao"], 0)
                if spec[2] == m["dao"] and spec[4] == "1":
                    ok = False if d != 0 else ok
            elif op.startswith("TX send:") and o.result == "ok" and parse_tx(op)[0][2] == m["dao"]:
                ok = True   # anyone may send coins TO the DAO
            elif op.startswith("BB "):
                ok = d > 0  # awards / fees may only add
            if not ok:
                return i, "DAO balance moved by %d on `%s`" % (d, op[:100]), {"kind": "dao-moved"}
    return None


def acl_owner(o, name):
    import json
    raw = param(o, "gov/acl")
    if raw is None:
        return None
    v = json.loads(raw)
    lst = v.get("value", v) if isinstance(v, dict) else v
    for e in lst or []:
        if e["acl_key"] == name:
            return e["address"]
    return None
