"""Export / import stream of the `app` engine (file app.xi): after the last Commit of a history the real
ExportGenesis of auth, pos and gov is written and read back as JSON and a fresh application is initialised from it.
In the model a restart carries the state over unchanged (the secondary indexes are functions of the primary
records: coq/App/ExportProofs.v), so every projection below must come back as it went in, and the properties'
invariants must hold in the imported state. What the modules' export leaves out BY DESIGN is not compared and is
counted in the evidence instead: accounts without a recorded public key and the module accounts other than pool and
DAO (auth's GetAllAccountsExport), the queued awards/burns, records of unstaked validators (InitGenesis refuses them)
and ring-buffer slots beyond the current window."""
import json, os
from appcommon import Obs, POW, num_param, rank_key

PROPS = ("C01", "C02", "C04", "C05", "C06", "C08", "C09", "C17")


def _split(rest, markers):
    out = {}
    cur = None
    pos = 0
    idxs = []
    for m in markers:
        i = rest.find(" " + m + " ")
        if rest.startswith(m + " "):
            i = -1
        idxs.append((i, m))
    # markers appear in order
    for n, (i, m) in enumerate(idxs):
        start = (i + 1 if i >= 0 else 0) + len(m) + 1
        end = len(rest)
        for j, m2 in idxs[n + 1:]:
            if j >= 0:
                end = j
                break
        out[m] = rest[start:end]
    return out


def _vals(o):
    d = {}
    for a, v in o.kv("V").items():
        st, j, tok, ut = v.split("/")
        d[a] = (int(st), j == "1", int(tok), int(ut))
    return d


def _bits(o, window):
    d = {}
    for k, v in o.kv("M").items():
        addr, idx = k[:40], int.from_bytes(bytes.fromhex(k[40:]), "little")
        if v == "1" and idx < window:
            d.setdefault(addr, set()).add(idx)
    return d


def _queue(o):
    return sorted((t, tuple(sorted(a.split("+")))) for t, a in o.kv("Q").items())


def check_line(line, mods):
    """-> (status, [(prop, message, signature)], observations)"""
    hid, st, rest = (line.rstrip("\n").split(" ", 2) + [""])[:3]
    out = []
    obs = {}
    if st != "ok":
        kind = st.split(":")[0]
        for p in PROPS[1:]:
            out.append((p, "restart from the exported state is impossible: %s" % st[:200], {"kind": "xi-" + kind}))
        return hid, st.split(":")[0], out, obs
    f = _split(rest, ["PRE", "POST", "UPS", "TM", "NOPUB", "HASHES"])
    a, b = Obs("x ok " + f["PRE"]), Obs("x ok " + f["POST"])
    # ---- C01
    hs = f["HASHES"].split(" ")
    if len(hs) != 2 or hs[0] != hs[1] or hs[0].startswith("panic") or hs[0] == "?":
        out.append(("C01", "two nodes initialised from the same exported genesis: application hashes %s / %s" % (hs[0][:60], hs[-1][:60]),
                    {"kind": "xi-import-hash"}))
    # ---- C02 / C04
    balA = {x: int(y) for x, y in a.kv("A").items()}
    balB = {x: int(y) for x, y in b.kv("A").items()}
    S = int(b.sec.get("S", "0"))
    if sum(balB.values()) != S:
        out.append(("C02", "after import the supply %d != sum of balances %d" % (S, sum(balB.values())), {"kind": "xi-supply-ne-sum"}))
    nopub = set(x for x in f["NOPUB"].split(",") if x)
    dropped = 0
    for x, y in balA.items():
        if x in nopub:
            if x not in (mods["pool"], mods["dao"]) and y > 0:
                dropped += 1
            continue
        if balB.get(x, 0) != y:
            out.append(("C02", "account %s held %d before the export and %d after the import" % (x, y, balB.get(x, 0)), {"kind": "xi-balance"}))
            break
    obs["accounts_without_key_not_exported"] = dropped
    if balB.get(mods["dao"], 0) != balA.get(mods["dao"], 0):
        out.append(("C02", "DAO held %d before the export and %d after the import" % (balA.get(mods["dao"], 0), balB.get(mods["dao"], 0)), {"kind": "xi-balance"}))
    va, vb = _vals(a), _vals(b)
    staked = sum(t for (s_, j, t, ut) in vb.values() if s_ != 0)
    if balB.get(mods["pool"], 0) != staked:
        out.append(("C04", "after import the staked pool holds %d but the validators that are staked or unstaking record %d"
                    % (balB.get(mods["pool"], 0), staked), {"kind": "xi-pool-ne-stake"}))
    # ---- validator records
    live = {x: v for x, v in va.items() if v[0] != 0}
    obs["unstaked_records_not_imported"] = len(va) - len(live)
    if live != vb:
        diff = [x for x in set(live) | set(vb) if live.get(x) != vb.get(x)]
        x = sorted(diff)[0]
        p = "C09" if (live.get(x) and vb.get(x) and live[x][1] != vb[x][1]) else "C06"
        out.append((p, "validator %s was %s before the export and is %s after the import (status, jailed, tokens, completion time)"
                    % (x, live.get(x), vb.get(x)), {"kind": "xi-validator-record"}))
    # ---- C05 / C06: indexes
    if a.kv("I") != b.kv("I"):
        out.append(("C06", "power index before the export %s, after the import %s" % (sorted(a.kv("I").values()), sorted(b.kv("I").values())), {"kind": "xi-index"}))
    exp = {rank_key(t, x): x for x, (s_, j, t, ut) in vb.items() if s_ == 2 and not j}
    if b.kv("I") != exp:
        msg = "after import the power index (key=address) %s != the staked unjailed validators under the key of their power %s" % (sorted(b.kv("I").items()), sorted(exp.items()))
        out.append(("C06", msg, {"kind": "xi-index-not-exact"}))
        out.append(("C05", msg, {"kind": "xi-index-not-exact"}))
    if _queue(a) != _queue(b):
        out.append(("C06", "unstaking queue before the export %s, after the import %s" % (_queue(a), _queue(b)), {"kind": "xi-queue"}))
    qb = dict(_queue(b))
    for x, (s_, j, t, ut) in vb.items():
        if s_ == 1 and x not in qb.get(str(ut), ()):
            out.append(("C06", "after import the unstaking validator %s is not queued at its completion time" % x, {"kind": "xi-queue-not-exact"}))
            break
    # the updates InitChain returns rebuild exactly the set Tendermint had
    tm = {}
    tmsec = f["TM"].split(" ")[0]
    for it in [x for x in tmsec[2:].split(",") if x]:
        k, pw = it.split("=")
        tm[k] = int(pw)
    ups = {}
    dup = False
    for it in [x for x in f["UPS"].strip()[2:-1].split(",") if x]:
        k, pw = it.split(":")
        dup = dup or k in ups
        ups[k] = int(pw)
    if dup or any(pw <= 0 for pw in ups.values()) or ups != tm:
        out.append(("C05", "InitChain on the imported state returns updates %s; Tendermint's set was %s" % (ups, tm), {"kind": "xi-updates"}))
    if a.sec.get("P") != b.sec.get("P"):
        out.append(("C05", "previous-state powers before the export %s, after the import %s" % (a.sec.get("P"), b.sec.get("P")), {"kind": "xi-prevstate"}))
    # ---- C08 / C09: signing infos and ring buffers
    if a.kv("G") != b.kv("G"):
        x = sorted(k for k in set(a.kv("G")) | set(b.kv("G")) if a.kv("G").get(k) != b.kv("G").get(k))[0]
        ga, gb = a.kv("G").get(x, "").split("/"), b.kv("G").get(x, "").split("/")
        p = "C09" if (len(ga) == 5 and len(gb) == 5 and (ga[3] != gb[3] or ga[2] != gb[2])) else "C08"
        out.append((p, "signing info of %s before the export %s, after the import %s (start/offset/jailed-until/tombstoned/missed)"
                    % (x, a.kv("G").get(x), b.kv("G").get(x)), {"kind": "xi-signing-info"}))
    w = num_param(b, "pos/SignedBlocksWindow", 100)
    ma, mb = _bits(a, w), _bits(b, w)
    if ma != mb:
        x = sorted(k for k in set(ma) | set(mb) if ma.get(k) != mb.get(k))[0]
        out.append(("C08", "missed-block window of %s before the export %s, after the import %s" % (x, sorted(ma.get(x, ())), sorted(mb.get(x, ()))), {"kind": "xi-window"}))
    for x, g in b.kv("G").items():
        cnt = int(g.split("/")[-1])
        ga = a.kv("G").get(x)
        if ga is not None and int(ga.split("/")[-1]) != len(ma.get(x, ())):
            continue  # already off before the export (a governance change shrank the window): nothing the restart did
        if cnt != len(mb.get(x, ())):
            out.append(("C08", "after import the missed counter of %s is %d but its window holds %d missed entries" % (x, cnt, len(mb.get(x, ()))), {"kind": "xi-counter-ne-window"}))
            break
    # ---- C17: every parameter of every subspace
    if a.sec.get("X") != b.sec.get("X"):
        xa, xb = a.kv("X"), b.kv("X")
        k = sorted(k for k in set(xa) | set(xb) if xa.get(k) != xb.get(k))[0]
        out.append(("C17", "parameter %s changed across export/import without any governance message: %s -> %s"
                    % (bytes.fromhex(k).decode("latin1"), bytes.fromhex(xa.get(k, "")).decode("latin1")[:200], bytes.fromhex(xb.get(k, "")).decode("latin1")[:200]),
                    {"kind": "xi-parameter"}))
    obs["queued_awards_or_burns_not_exported"] = 1 if (a.sec.get("W") or a.sec.get("B")) else 0
    return hid, "ok", out, obs


def run(prop, v, out_dir, hists, cov):
    path = os.path.join(out_dir, "app.xi")
    if not os.path.exists(path) or prop not in PROPS:
        return
    by_id = {h["id"]: h for h in hists}
    n = bad = 0
    status = {}
    obs_tot = {}
    for line in open(path):
        hid = line.split(" ", 1)[0]
        h = by_id.get(hid)
        if h is None:
            continue
        f = dict(x.split("=") for x in h["header"][0].split(" ")[2:])
        hid, st, found, obs = check_line(line, f)
        status[st] = status.get(st, 0) + 1
        for k, x in obs.items():
            obs_tot[k] = obs_tot.get(k, 0) + x
        n += 1
        for (p, msg, sig) in found:
            if p != prop:
                continue
            bad += 1
            v.violation(dict(sig, engine="app"), "export/import after history %s: %s" % (hid, msg),
                        {"history": h["header"] + [o[0] for o in h["ops"]] + ["E", "EXPORT-IMPORT"], "export_import_line": line[:4000]})
            break
    cov["export_import"] = {"histories_exported_and_reimported": n, "status": status, "violations": bad,
                            "left_out_by_the_modules_export_by_design": obs_tot}
